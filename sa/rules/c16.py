"""C16 -- resizing and padding follow the named boundary rule; cropping
undoes extension.  See DESIGN.md section C16."""
from __future__ import annotations

import ast
import itertools
from fractions import Fraction as Fr

from ..forks import Fork
from ..core import Report, Undecided, AnalysisError
from ..srcmodel import Model, return_exprs, bind_call
from ..forks import explore
from ..ratfun import Rat
from ..symex import (Interp, Hooks, Inst, Func, Builtin, Opaque, Rec, SArr,
                     NPV, PyRaise, is_scalar, to_rat)
from ..npmodel import NumpyHooks

NUM = 'odl/util/numerics.py'
DOPS = 'odl/discr/discr_ops.py'


class RH(NumpyHooks):
    def on_call(self, interp, f, args, kwargs, node):
        if isinstance(f, Func) and f.name == 'normalized_scalar_param_list':
            p, n = args[0], args[1]
            return list(p) if isinstance(p, (list, tuple)) else [p] * n
        return NotImplemented

    def on_name(self, interp, name):
        if name == 'safe_int_conv':
            return Builtin('safe_int_conv', lambda v: v)
        return NotImplemented

    def on_getattr(self, interp, obj, name):
        I = interp
        if isinstance(obj, SArr):
            if name == 'dtype':
                return Opaque('dtype')
            if name == 'size':
                return len(obj.items)
            if name == 'ndim':
                return 1
            if name == 'flags':
                return Rec('flags', c_contiguous=True, f_contiguous=True)
            if name == 'fill':
                def fill(v):
                    obj.items[:] = [v] * len(obj.items)
                return Builtin('fill', fill)
            if name in ('any', 'all'):
                # data-dependent tests: a symbolic entry is generic (not
                # zero), a constant entry is what it is - the special
                # inputs of R2s make these tests take their other branch
                def anyall(*a, **k):
                    nz = []
                    for v in obj.items:
                        if v is None:
                            raise Undecided('truth value of an unwritten '
                                            'entry')
                        r = to_rat(v)
                        nz.append(not r.is_zero() if not r.is_const()
                                  else r.constant() != 0)
                    return any(nz) if name == 'any' else all(nz)
                return Builtin(name, anyall)
        if obj is NPV:
            if name == 'can_cast':
                return Builtin('np.can_cast', lambda *a, **k: True)
            if name == 'sum':
                def sm(a, **k):
                    tot = Rat.const(0)
                    for v in a.items:
                        tot = tot + to_rat(v)
                    return SArr([tot])
                return Builtin('np.sum', sm)
            if name == 'diff':
                def df(a, **k):
                    it = [to_rat(v) for v in a.items]
                    return SArr([it[i + 1] - it[i]
                                 for i in range(len(it) - 1)])
                return Builtin('np.diff', df)
            if name == 'arange':
                def ar(a, b=None, **k):
                    if b is None:
                        a, b = 0, a
                    return SArr(list(range(a, b)))
                return Builtin('np.arange', ar)
            if name == 'empty':
                def em(shape, **k):
                    n = shape[0] if isinstance(shape, (tuple, list)) \
                        else shape
                    return SArr([None] * n)
                return Builtin('np.empty', em)
            if name == 'asarray':
                return Builtin('np.asarray', lambda v, **k: v)
        return NumpyHooks.on_getattr(self, interp, obj, name)

    def on_subscript(self, interp, obj, idx):
        # 1-d arrays indexed with a 1-tuple
        if isinstance(obj, SArr) and isinstance(idx, tuple) and \
                len(idx) == 1:
            i = idx[0]
            if isinstance(i, slice):
                return SArr(obj.items[i])
            if i is None:
                return obj
        return NumpyHooks.on_subscript(self, interp, obj, idx)


class RInterp(Interp):
    def assign(self, t, v, scope, func):
        if isinstance(t, ast.Subscript):
            obj = self.ev(t.value, scope, func)
            if isinstance(obj, SArr) and not isinstance(t.slice, ast.Slice):
                idx = self.ev(t.slice, scope, func)
                if isinstance(idx, tuple) and len(idx) == 1 and isinstance(
                        idx[0], slice):
                    n = len(obj.items[idx[0]])
                    vals = v.items if isinstance(v, SArr) else [v] * n
                    if len(vals) == 1 and n != 1:
                        vals = vals * n
                    if len(vals) != n:
                        # NumPy: could not broadcast input array
                        raise PyRaise('ValueError')
                    obj.items[idx[0]] = vals
                    return
        return Interp.assign(self, t, v, scope, func)

    def binop(self, op, l, r):
        # NumPy broadcasting of length-1 arrays
        if isinstance(l, SArr) and isinstance(r, SArr) and \
                len(l.items) != len(r.items):
            if len(l.items) == 1:
                l = SArr(l.items * len(r.items))
            elif len(r.items) == 1:
                r = SArr(r.items * len(l.items))
        return Interp.binop(self, op, l, r)


def special(model, n_in, n_out, offset, mode, direction, xs, pad_const=0):
    """resize_array on a concrete 1-d input: list of Fractions."""
    fn = model.ctx.func(NUM, 'resize_array')
    x = SArr([Rat.const(v) for v in xs])

    def once(assume):
        I = RInterp(model, assume, RH())
        return I.call_func(Func(fn, I.env_of(NUM), None), [x, (n_out,)],
                           {'offset': [offset], 'pad_mode': mode,
                            'pad_const': pad_const, 'direction': direction})
    leaves = explore(once, limit=10)
    if len(leaves) != 1:
        raise Undecided('%d paths' % len(leaves))
    out = []
    for v in leaves[0][1].items:
        if v is None:
            raise Undecided('output entry never written')
        r = to_rat(v)
        if not r.is_const():
            raise Undecided('non-constant entry %r' % (r,))
        out.append(r.constant())
    if [to_rat(v).constant() for v in x.items] != [Fr(v) for v in xs]:
        return out, 'the input array was modified: %s' % [
            str(to_rat(v)) for v in x.items]
    return out, None


def matrix(model, n_in, n_out, offset, mode, direction, pad_const=0):
    """Exact matrix (rows: output entries) of resize_array in 1-d."""
    fn = model.ctx.func(NUM, 'resize_array')
    x = SArr([Rat.var('x%d' % i) for i in range(n_in)])

    def once(assume):
        I = RInterp(model, assume, RH())
        out = I.call_func(Func(fn, I.env_of(NUM), None), [x, (n_out,)],
                          {'offset': [offset], 'pad_mode': mode,
                           'pad_const': pad_const, 'direction': direction})
        return out
    leaves = explore(once, limit=10)
    if len(leaves) != 1:
        raise Undecided('%d paths' % len(leaves))
    out = leaves[0][1]
    rows = []
    consts = []
    for v in out.items:
        if v is None:
            raise Undecided('output entry never written')
        r = to_rat(v)
        row = []
        rest = r
        for i in range(n_in):
            c = r.diff('x%d' % i)
            if not c.is_const():
                raise Undecided('non-linear dependence')
            row.append(c.constant())
            rest = rest - c * Rat.var('x%d' % i)
        if not rest.is_const():
            raise Undecided('residual %r' % (rest,))
        consts.append(rest.constant())
        rows.append(row)
    return rows, consts


def reference(n_in, n_out, offset, mode, pad_const=0):
    """Oracle: copy the overlapping block, fill the rest by the named
    rule.  Returns (matrix, consts) or None if the configuration is
    inadmissible for the mode."""
    rows, consts = [], []
    if n_out <= n_in:
        for k in range(n_out):
            r = [Fr(0)] * n_in
            r[offset + k] = Fr(1)
            rows.append(r)
            consts.append(Fr(0))
        return rows, consts
    pl, pr = offset, n_out - n_in - offset

    def unit(i):
        r = [Fr(0)] * n_in
        r[i] = Fr(1)
        return r
    for k in range(n_out):
        j = k - offset
        c = Fr(0)
        if 0 <= j < n_in:
            r = unit(j)
        elif mode == 'constant':
            r = [Fr(0)] * n_in
            c = Fr(pad_const)
        elif mode == 'periodic':
            r = unit(j % n_in)
        elif mode == 'symmetric':
            # mirror about the edge sample without repeating it
            jj = -j if j < 0 else 2 * (n_in - 1) - j
            r = unit(jj)
        elif mode == 'order0':
            r = unit(0 if j < 0 else n_in - 1)
        elif mode == 'order1':
            if j < 0:
                # x0 + j * (x1 - x0)
                r = [Fr(0)] * n_in
                r[0] += Fr(1) - Fr(j)
                r[1] += Fr(j)
            else:
                d = j - (n_in - 1)
                r = [Fr(0)] * n_in
                r[n_in - 1] += Fr(1) + Fr(d)
                r[n_in - 2] -= Fr(d)
        rows.append(r)
        consts.append(c)
    return rows, consts


def admissible(n_in, n_out, offset, mode):
    if n_out <= n_in:
        return 0 <= offset <= n_in - n_out
    pl, pr = offset, n_out - n_in - offset
    if pl < 0 or pr < 0:
        return False
    if mode == 'periodic':
        return pl <= n_in and pr <= n_in
    if mode == 'symmetric':
        return pl < n_in and pr < n_in
    if mode == 'order0':
        return n_in >= 1
    if mode == 'order1':
        return n_in >= 2
    return True


def check(ctx):
    rep = Report(
        'C16', ctx, 'other',
        'The exact matrix of resize_array is extracted by symbolic '
        'interpretation of resize_array / _assign_intersection / '
        '_apply_padding / _padding_slices_* on 1-d arrays with symbolic '
        'entries for every pad mode, every size pair up to the bound and '
        'every admissible offset: the forward matrix must equal the oracle '
        '(overlapping block copied unchanged, remainder filled by the named '
        'rule: constant, periodic wrap, reflection without repeating the '
        'edge, constant and linear extrapolation) and the adjoint-direction '
        'matrix must be its transpose; cropping after extension is the '
        'identity.  R1: mode tables agree.  R4: _resize_discr keeps the '
        'cell size and enlarges the domain by the padded cells; '
        'ResizingOperator wiring (inverse/adjoint/derivative arguments, '
        'signature conformance).',
        ['CPython ast', 'NumPy basic slicing, np.sum/np.diff/np.arange on '
         '1-d arrays, broadcasting of length-1 arrays'],
        ['interaction of several axes (the per-axis loop is exercised for '
         'one axis)', 'agreement with numpy.pad beyond the oracle', 'dtype '
         'casting', 'the weighted adjoint identity on non-uniformly '
         'weighted spaces (finding F42)'])
    model = Model(ctx)
    consts = ctx.module_consts(NUM)
    modes = consts.get('_SUPPORTED_RESIZE_PAD_MODES')
    if not modes:
        raise AnalysisError('anchor vanished: _SUPPORTED_RESIZE_PAD_MODES')
    # ---- R1 mode exhaustiveness ------------------------------------------
    ap = ctx.func(NUM, '_apply_padding')
    handled = set()
    for s in ast.walk(ap):
        if isinstance(s, ast.Compare) and ast.unparse(s.left) == 'pad_mode':
            try:
                v = ast.literal_eval(s.comparators[0])
                handled |= set(v) if isinstance(v, tuple) else {v}
            except Exception:
                pass
    missing = set(modes) - handled - {'constant'}
    if missing:
        rep.violation('R1', '_apply_padding', 'supported pad mode(s) %s '
                      'have no arm' % sorted(missing), NUM, ap.lineno)
    else:
        rep.holds('R1', '_apply_padding', 'every supported mode is handled')
    dmodes = ctx.module_consts(DOPS).get('_SUPPORTED_RESIZE_PAD_MODES')
    src = ctx.src(DOPS)
    if '_SUPPORTED_RESIZE_PAD_MODES' not in src:
        rep.violation('R1', 'ResizingOperator', 'does not validate pad_mode '
                      'against _SUPPORTED_RESIZE_PAD_MODES', DOPS, 1)
    else:
        rep.holds('R1', 'ResizingOperator', 'validates against the same '
                  'mode tuple')
    # ---- matrices -----------------------------------------------------------
    fn = ctx.func(NUM, 'resize_array')
    nmax = 5 if ctx.tier == 'quick' else 7
    n_cfg = 0
    for mode in modes:
        bad_f = bad_a = None
        und = None
        for n_in in range(1, nmax + 1):
            for n_out in range(1, nmax + 3):
                lo = 0
                hi = abs(n_out - n_in)
                for offset in range(lo, hi + 1):
                    if not admissible(n_in, n_out, offset, mode):
                        continue
                    try:
                        M, c = matrix(model, n_in, n_out, offset, mode,
                                      'forward')
                        n_cfg += 1
                        Mr, cr = reference(n_in, n_out, offset, mode)
                        if (M, c) != (Mr, cr) and bad_f is None:
                            bad_f = (n_in, n_out, offset, M, Mr)
                        # adjoint direction: maps n_out -> n_in
                        A, ca = matrix(model, n_out, n_in, offset, mode,
                                       'adjoint')
                        T = [list(r) for r in zip(*M)]
                        if (A != T or any(ca)) and bad_a is None:
                            bad_a = (n_in, n_out, offset, A, T)
                    except Undecided as e:
                        und = und or ((n_in, n_out, offset), str(e))
                    except PyRaise as e:
                        if bad_f is None:
                            bad_f = (n_in, n_out, offset, 'raises ' + e.name,
                                     None)
        cons = 'resize_array[%s]' % mode
        if und:
            rep.undecided('R2', cons, 'sizes %s: %s' % und, NUM, fn.lineno)
        if bad_f:
            n_in, n_out, off, M, Mr = bad_f
            rep.violation(
                'R2', cons + ':forward',
                'resizing %d -> %d entries with offset %d: matrix %s, the '
                '%r rule gives %s' % (n_in, n_out, off, _show(M), mode,
                                      _show(Mr)), NUM, fn.lineno)
        elif not und:
            rep.holds('R2', cons + ':forward', 'equals the oracle for all '
                      'sizes <= %d and offsets' % nmax)
        if bad_a:
            n_in, n_out, off, A, T = bad_a
            rep.violation(
                'R2', cons + ':adjoint',
                'adjoint direction %d -> %d entries, offset %d: matrix %s is'
                ' not the transpose %s of the forward matrix'
                % (n_out, n_in, off, _show(A), _show(T)), NUM, fn.lineno)
        elif not und:
            rep.holds('R2', cons + ':adjoint', 'transpose of the forward '
                      'matrix for all sizes <= %d and offsets' % nmax)
    rep.count('resize_configurations', n_cfg)
    rep.floor('R2', 'resize configurations', n_cfg, 200)
    # constant padding with a non-zero constant
    try:
        M, c = matrix(model, 2, 5, 1, 'constant', 'forward', pad_const=7)
        if c != [7, 0, 0, 7, 7] or M != reference(2, 5, 1, 'constant')[0]:
            rep.violation('R2', 'resize_array[constant]:pad_const', 'padding'
                          ' with pad_const=7 gives offsets %s' % c, NUM,
                          fn.lineno)
        else:
            rep.holds('R2', 'resize_array[constant]:pad_const', 'pad region '
                      'filled with pad_const')
    except (Undecided, PyRaise) as e:
        rep.undecided('R2', 'resize_array[constant]:pad_const', str(e), NUM,
                      fn.lineno)
    # R2s: the matrices above were extracted at a generic input; at special
    # inputs (zero, constant, one-hot) every data-dependent shortcut takes
    # its other branch and the result must still be the affine map
    n_sp = 0
    for mode in modes:
        bad = None
        for n_in, n_out, off in ((2, 5, 1), (3, 5, 2), (3, 4, 0), (5, 2, 1),
                                 (4, 3, 0)):
            if not admissible(n_in, n_out, off, mode):
                continue
            for direction in ('forward', 'adjoint'):
                ni, no = (n_in, n_out) if direction == 'forward' else (
                    n_out, n_in)
                for pc in ((0, 7) if mode == 'constant' and
                           direction == 'forward' else (0,)):
                    Mr, cr = reference(n_in, n_out, off, mode, pc)
                    if direction == 'adjoint':
                        Mr = [list(r) for r in zip(*Mr)]
                        cr = [Fr(0)] * len(Mr)
                    inputs = [[0] * ni, [1] * ni, [3] * ni] + [
                        [int(i == k) for i in range(ni)] for k in range(ni)]
                    for xs in inputs:
                        try:
                            got, mod = special(model, ni, no, off, mode,
                                               direction, xs, pc)
                        except (Undecided, PyRaise) as e:
                            bad = bad or ('%s %d -> %d, offset %d, input %s: '
                                          '%s' % (direction, ni, no, off, xs,
                                                  e))
                            continue
                        n_sp += 1
                        want = [sum(Fr(m) * x for m, x in zip(row, xs)) + c
                                for row, c in zip(Mr, cr)]
                        if mod and bad is None:
                            bad = '%s %d -> %d, offset %d, input %s: %s' % (
                                direction, ni, no, off, xs, mod)
                        if got != want and bad is None:
                            bad = ('%s %d -> %d, offset %d, pad_const %d, '
                                   'input %s: result %s, the %r rule gives '
                                   '%s' % (direction, ni, no, off, pc, xs,
                                           [str(v) for v in got], mode,
                                           [str(v) for v in want]))
        cons = 'resize_array[%s]:special inputs' % mode
        if bad:
            rep.violation('R2s', cons, bad, NUM, fn.lineno)
        else:
            rep.holds('R2s', cons, 'zero, constant and one-hot inputs give '
                      'the value of the extracted affine map; the input '
                      'array is unchanged')
    rep.floor('R2s', 'special-input evaluations', n_sp, 150)
    # extension then cropping is the identity
    for mode in modes:
        try:
            ok = True
            for n_in, pl, pr in ((3, 1, 2), (4, 2, 0), (2, 0, 1)):
                if not admissible(n_in, n_in + pl + pr, pl, mode):
                    continue
                E, _ = matrix(model, n_in, n_in + pl + pr, pl, mode,
                              'forward')
                C, _ = matrix(model, n_in + pl + pr, n_in, pl, mode,
                              'forward')
                P = [[sum(C[i][k] * E[k][j] for k in range(len(E)))
                      for j in range(n_in)] for i in range(n_in)]
                if P != [[Fr(int(i == j)) for j in range(n_in)]
                         for i in range(n_in)]:
                    ok = False
            if ok:
                rep.holds('R2', 'resize_array[%s]:crop-after-extend' % mode,
                          'identity')
            else:
                rep.violation('R2', 'resize_array[%s]:crop-after-extend'
                              % mode, 'cropping with the matching offset '
                              'does not undo the extension', NUM, fn.lineno)
        except (Undecided, PyRaise) as e:
            rep.undecided('R2', 'resize_array[%s]:crop-after-extend' % mode,
                          str(e), NUM, fn.lineno)
    _resize_discr(rep, model)
    _offsets(rep, model)
    _wiring(rep, model)
    _nd(rep, model, ctx.tier == 'thorough')
    _range_check(rep, model)
    return rep


def _range_check(rep, model):
    """R4c: `ResizingOperator(domain, range)` accepts an explicitly given
    range only when its cells have the sides of the domain's cells in every
    axis, resized or not (the operator copies array entries; the adjoint is
    the transposed copy only between equal cells): a range with equal cell
    sides is accepted, one with another cell side in any axis is refused
    with ValueError."""
    from ..spacemodel import SMInterp, NSpace
    from .c05b import H5
    ci = model.get('ResizingOperator')
    if ci is None:
        raise AnalysisError('anchor vanished: ResizingOperator')
    h0, h1, k = Rat.var('h0'), Rat.var('h1'), Rat.var('k')

    def sp(shape, sides):
        s_ = NSpace(shape, 'float64', sides[0] * sides[1],
                    cell_sides=list(sides))
        s_.resize_offset = (0, 0)
        return s_
    n = 0
    for what, rshape, rsides, ok in (
            ('equal cells, first axis resized', (8, 4), (h0, h1), True),
            ('another cell side in the resized axis', (8, 4), (k, h1), False),
            ('another cell side in the axis that keeps its size', (8, 4),
             (h0, k), False),
            ('another cell side, no axis resized', (4, 4), (h0, k), False)):
        n += 1
        cons = 'ResizingOperator(domain, range)[%s]' % what
        try:
            H = H5()
            H.signs.positive.add('k')
            I = SMInterp(model, {}, H)
            try:
                I.instantiate(ci, [sp((4, 4), (h0, h1)),
                                   sp(rshape, rsides)], {})
                raised = None
            except PyRaise as e:
                raised = e.name
            if ok and raised:
                rep.violation('R4c', cons, 'a matching range is refused '
                              'with %s' % raised, DOPS, ci.node.lineno)
            elif not ok and raised != 'ValueError':
                rep.violation('R4c', cons, 'the range is %s' % (
                    'accepted: domain and range cells differ, the adjoint '
                    '(a transposed copy) is not the adjoint between them'
                    if raised is None else 'refused with %s' % raised),
                    DOPS, ci.node.lineno)
            else:
                rep.holds('R4c', cons, 'accepted' if ok else 'ValueError')
        except (Undecided, Fork) as e:
            rep.undecided('R4c', cons, str(e), DOPS, ci.node.lineno)
    rep.floor('R4c', 'explicit-range configurations', n, 4)


def _show(M):
    if not isinstance(M, list):
        return str(M)
    return '[' + '; '.join(' '.join(str(x) for x in r) for r in M) + ']'


def _resize_discr(rep, model):
    fn = model.ctx.func(DOPS, '_resize_discr')
    gmin, c = Rat.var('gmin'), Rat.var('c')

    class DH(RH):
        def __init__(self):
            self.parts = []

        def on_call(self, interp, f, args, kwargs, node):
            if isinstance(f, Func) and f.name == 'uniform_partition':
                if args and isinstance(args[0], list) and not args[0]:
                    return Rec('part', append=Builtin('append',
                                                      lambda p: p))
                self.parts.append((args[0], args[1], args[2],
                                   kwargs.get('nodes_on_bdry')))
                return Rec('part', append=Builtin('append', lambda p: p))
            if isinstance(f, Func) and f.name == 'tensor_space':
                return Rec('tspace')
            from ..symex import ClassV
            if isinstance(f, ClassV) and f.ci.name == 'DiscretizedSpace':
                return Rec('DiscretizedSpace')
            return RH.on_call(self, interp, f, args, kwargs, node)

        def on_getattr(self, interp, obj, name):
            if obj is NPV and name == 'not_equal':
                return Builtin('np.not_equal', lambda a, b: SArr(
                    [x != y for x, y in zip(a, b)]))
            return RH.on_getattr(self, interp, obj, name)

    for n_orig, n_new, off in ((4, 7, None), (4, 8, None), (5, 9, 1),
                               (5, 8, 3), (6, 3, 2), (7, 4, 1), (5, 2, 3),
                               (6, 3, 0), (6, 3, None), (6, 6, None)):
        for bl, br in itertools.product((False, True), repeat=2):
            tag = '_resize_discr[%d->%d,offset=%s,bdry=(%s,%s)]' % (
                n_orig, n_new, off, bl, br)
            try:
                h = DH()
                gmax = gmin + c * (n_orig - 1)
                discr = Rec(
                    'DiscretizedSpace', ndim=1, shape=(n_orig,),
                    dtype=Opaque('dt'), impl='numpy', exponent=2,
                    weighting=Opaque('w'), is_uniform_byaxis=(True,),
                    cell_sides=SArr([c]),
                    grid=Rec('grid', min=Builtin('min', lambda: SArr(
                        [gmin])), max=Builtin('max', lambda: SArr([gmax]))),
                    partition=Rec('part'))

                def once(assume):
                    I = RInterp(model, assume, h)
                    I.call_func(Func(fn, I.env_of(DOPS), None),
                                [discr, (n_new,), [off],
                                 {'nodes_on_bdry': [(bl, br)]}], {})
                    return list(h.parts)
                leaves = explore(once, limit=10)
                parts = leaves[0][1]
                lo, hi, n, nob = parts[-1]
                lo, hi = to_rat(lo), to_rat(hi)
                k = Fr(int(bl) + int(br), 2)
                cell = (hi - lo) / (Rat.const(n_new) - Rat.const(k))
                # cells added on the left (negative: removed).  An explicit
                # offset is the number of cells to add to / remove from the
                # left (documented), i.e. the block `resize_array` copies
                # starts `off` cells into the domain when shrinking
                if off is None:
                    num_l = (n_new - n_orig) - (n_new - n_orig) // 2
                elif n_new >= n_orig:
                    num_l = off
                else:
                    num_l = -off
                if n_new == n_orig:
                    num_l = 0
                # first node of the new grid
                first = lo if bl else lo + cell / 2
                probs = []
                if cell != c:
                    probs.append('cell size becomes %r' % (cell,))
                if first != gmin - c * num_l:
                    probs.append('first node at %r, expected gmin - %d '
                                 'cells' % (first, num_l))
                if to_rat(n) != Rat.const(n_new):
                    probs.append('shape %r' % (n,))
                if probs:
                    rep.violation('R4', '_resize_discr', '%s: %s'
                                  % (tag, '; '.join(probs)), DOPS, fn.lineno)
                else:
                    rep.holds('R4', tag, 'cell size unchanged, %d cells '
                              'added on the left' % num_l)
            except Undecided as e:
                rep.undecided('R4', tag, str(e), DOPS, fn.lineno)
            except PyRaise as e:
                rep.violation('R4', '_resize_discr', '%s: raises %s'
                              % (tag, e.name), DOPS, fn.lineno)


def _offsets(rep, model):
    """R4b: `_offset_from_spaces` on 2-d domain / range pairs whose axes
    grow, shrink or stay independently (so that the total size can move
    against an axis): the index offset of the smaller extent inside the
    larger one, per axis; 0 in unchanged axes."""
    import numpy as _np
    from ..namodel import NA, NAHooks, NAInterp, objarr
    from .. import posalg as PA
    from ..posalg import Signs
    fn = model.ctx.func(DOPS, '_offset_from_spaces')
    if fn is None:
        raise AnalysisError('anchor vanished: _offset_from_spaces')
    signs = Signs({'c0', 'c1'})
    c = [Rat.var('c0'), Rat.var('c1')]
    g = [Rat.var('g0'), Rat.var('g1')]

    class H(NAHooks):
        def atom1(self, name):
            if name in ('abs', 'absolute'):
                return lambda x: PA.abs_nf(to_rat(x), signs)
            return NAHooks.atom1(self, name)

        def maxmin(self, I, name, x, y):
            x, y = to_rat(x), to_rat(y)
            sg = PA.rat_sign(x - y, signs)
            if sg is None:
                return NAHooks.maxmin(self, I, name, x, y)
            big, small = (x, y) if sg >= 0 else (y, x)
            return big if name.startswith('max') else small

        def on_getattr(self, interp, obj, name):
            if isinstance(obj, Rec) and name in obj.attrs:
                return obj.attrs[name]
            return NAHooks.on_getattr(self, interp, obj, name)

    def space(shape, first):
        return Rec('DiscretizedSpace', ndim=2, shape=tuple(shape),
                   size=shape[0] * shape[1],
                   cell_sides=NA(objarr(list(c)), 'float64'),
                   grid=Rec('grid', min=Builtin('min', lambda: NA(
                       objarr(list(first)), 'float64'))))
    # per axis: (domain length, range length, cells added / removed left)
    AX = [(4, 4, 0), (4, 7, 0), (4, 7, 2), (4, 7, 3), (5, 2, 0), (5, 2, 1),
          (5, 2, 3), (3, 8, 1), (8, 3, 4)]
    n = 0
    for a0, a1 in itertools.product(AX, AX):
        n += 1
        tag = '_offset_from_spaces[%s x %s]' % (
            '%d->%d@%d' % a0, '%d->%d@%d' % a1)
        dom_first = list(g)
        ran_first = []
        want = []
        for ax, (nd, nr, k) in enumerate((a0, a1)):
            if nr >= nd:
                ran_first.append(g[ax] - c[ax] * k)
            else:
                ran_first.append(g[ax] + c[ax] * k)
            want.append(0 if nd == nr else k)
        try:
            I = NAInterp(model, {}, H())
            out = I.call_func(Func(fn, I.env_of(DOPS), None), [
                space((a0[0], a1[0]), dom_first),
                space((a0[1], a1[1]), ran_first)], {})
            got = [to_rat(v) for v in out]
            if len(got) != 2 or any(not (gv - Rat.const(w)).is_zero()
                                    for gv, w in zip(got, want)):
                rep.violation('R4b', tag, 'offset %r, expected %r'
                              % (tuple(got), tuple(want)), DOPS, fn.lineno)
            else:
                rep.holds('R4b', tag, 'offset %r' % (tuple(want),))
        except (Undecided, Fork) as e:
            rep.undecided('R4b', tag, str(e), DOPS, fn.lineno)
        except PyRaise as e:
            rep.violation('R4b', tag, 'raises %s' % e.name, DOPS, fn.lineno)
    rep.floor('R4b', 'offset configurations', n, 80)


def _wiring(rep, model):
    from ..callsig import check_calls
    ci = model.get('ResizingOperator')
    # E11 over the whole class (incl. the closure adjoint class)
    n = 0
    for call, prob in check_calls(model, ci.node):
        n += 1
        rep.violation(
            'R4', 'ResizingOperator:%s' % ast.unparse(call.func),
            'call `%s`: %s -- it raises TypeError when evaluated'
            % (ast.unparse(call)[:80], prob), ci.rel, call.lineno)
    if n == 0:
        rep.holds('R4', 'ResizingOperator:signatures', 'all constructor '
                  'calls conform to the resolved signatures')
    # inverse / derivative / adjoint arguments
    inv = ci.methods['inverse']
    rets = return_exprs(inv)
    cons = 'ResizingOperator.inverse'
    if len(rets) == 1 and isinstance(rets[0].value, ast.Call):
        call = rets[0].value
        a = [ast.unparse(x) for x in call.args]
        kw = {k.arg: ast.unparse(k.value) for k in call.keywords}
        if a[:2] == ['self.range', 'self.domain'] and kw.get('pad_mode') \
                == 'self.pad_mode' and kw.get('pad_const') == \
                'self.pad_const':
            rep.holds('R4', cons, 'spaces swapped, pad options forwarded')
        else:
            rep.violation('R4', cons, 'builds %s' % ast.unparse(call)[:90],
                          ci.rel, call.lineno)
    else:
        rep.undecided('R4', cons, 'unexpected shape', ci.rel, inv.lineno)
    # the adjoint closure calls resize_array with swapped shape, same offset
    # and pad mode, direction='adjoint'
    adj_cls = model.get('ResizingOperatorAdjoint')
    call_fn = adj_cls.methods['_call']
    calls = [c for c in ast.walk(call_fn) if isinstance(c, ast.Call)
             and ast.unparse(c.func) == 'resize_array']
    cons = 'ResizingOperatorAdjoint._call'
    if len(calls) == 1:
        c = calls[0]
        kw = {k.arg: ast.unparse(k.value) for k in c.keywords}
        a = [ast.unparse(x) for x in c.args]
        probs = []
        if len(a) < 2 or a[1] != 'op.domain.shape':
            probs.append('new shape %s' % (a[1] if len(a) > 1 else None))
        for k, w in (('offset', 'op.offset'), ('pad_mode', 'op.pad_mode'),
                     ('direction', "'adjoint'")):
            if kw.get(k) != w:
                probs.append('%s=%s, expected %s' % (k, kw.get(k), w))
        if probs:
            rep.violation('R4', cons, '; '.join(probs), adj_cls.rel,
                          c.lineno)
        else:
            rep.holds('R4', cons, 'same offset and mode, adjoint direction')
    else:
        rep.undecided('R4', cons, 'resize_array call not found',
                      adj_cls.rel, call_fn.lineno)
    fwd = ci.methods['_call']
    calls = [c for c in ast.walk(fwd) if isinstance(c, ast.Call)
             and ast.unparse(c.func) == 'resize_array']
    cons = 'ResizingOperator._call'
    if len(calls) == 1:
        c = calls[0]
        kw = {k.arg: ast.unparse(k.value) for k in c.keywords}
        a = [ast.unparse(x) for x in c.args]
        probs = []
        if len(a) < 2 or a[1] != 'self.range.shape':
            probs.append('new shape %s' % (a[1] if len(a) > 1 else None))
        for k, w in (('offset', 'self.offset'), ('pad_mode', 'self.pad_mode'),
                     ('pad_const', 'self.pad_const'),
                     ('direction', "'forward'")):
            if kw.get(k) != w:
                probs.append('%s=%s, expected %s' % (k, kw.get(k), w))
        if probs:
            rep.violation('R4', cons, '; '.join(probs), ci.rel, c.lineno)
        else:
            rep.holds('R4', cons, 'range shape, offset, mode, constant '
                      'forwarded')
    else:
        rep.undecided('R4', cons, 'resize_array call not found', ci.rel,
                      fwd.lineno)


# --------------------------------------------------------------------------
# R5: several axes at once.  The n-d result must be the separable
# application of the (already verified) one-axis rule along every axis --
# including the "corner" blocks that are extensions of extensions.
def _nd(rep, model, thorough):
    import numpy as _np
    from ..namodel import NA, NAHooks, NAInterp, symbols

    fn = model.ctx.func(NUM, 'resize_array')

    class H(NAHooks):
        def on_call(self, interp, f, args, kwargs, node):
            if isinstance(f, Func) and \
                    f.name == 'normalized_scalar_param_list':
                p, n = args[0], args[1]
                return list(p) if isinstance(p, (list, tuple)) else [p] * n
            return NotImplemented

        def on_name(self, interp, name):
            if name == 'safe_int_conv':
                return Builtin('safe_int_conv', lambda v: v)
            return NotImplemented

    def apply_axis(A, axis, M, consts, transpose):
        """Apply the one-axis matrix (rows = outputs) along ``axis``."""
        if transpose:
            rows = [[M[i][j] for i in range(len(M))]
                    for j in range(len(M[0]))]
            consts = [Fr(0)] * len(rows)
        else:
            rows = M
        shp = list(A.shape)
        shp[axis] = len(rows)
        out = _np.empty(shp, dtype=object)
        for idx in _np.ndindex(*shp):
            tot = Rat.const(consts[idx[axis]])
            for j, c in enumerate(rows[idx[axis]]):
                if c != 0:
                    src = list(idx)
                    src[axis] = j
                    tot = tot + to_rat(A[tuple(src)]) * Rat.const(c)
            out[idx] = tot
        return out

    # growing in every axis, and mixed (growing in one axis, shrinking in
    # another) with the total size growing, shrinking and unchanged
    configs = [((2, 3), (4, 4)), ((2, 2, 2), (3, 3, 3)),
               ((3, 4), (5, 2)), ((2, 4), (4, 3)), ((2, 3), (3, 2)),
               # an axis that keeps its size, with non-zero offset entries
               # for it (a scalar offset is broadcast to every axis)
               ((3, 4), (3, 7)), ((4, 3), (2, 3))]
    if thorough:
        configs.append(((2, 3, 2), (4, 4, 3)))
        configs.append(((3, 2, 3), (2, 4, 2)))
    n = 0
    for shape_in, shape_out in configs:
        for mode in ('constant', 'periodic', 'symmetric', 'order0',
                     'order1'):
            for direction in ('forward', 'adjoint'):
                offs = [range(abs(so - si) + 1) if so != si else range(3)
                        for si, so in zip(shape_in, shape_out)]
                bad = []
                und = None
                cnt = 0
                for offset in itertools.product(*offs):
                    # the offset of an axis that keeps its size is ignored
                    eff = [0 if si == so else o for si, so, o in zip(
                        shape_in, shape_out, offset)]
                    if not all(admissible(si, so, o, mode) for si, so, o in
                               zip(shape_in, shape_out, eff)):
                        continue
                    cnt += 1
                    n += 1
                    refs = [reference(si, so, o, mode)
                            for si, so, o in zip(shape_in, shape_out, eff)]
                    if direction == 'forward':
                        x = symbols('x', shape_in)
                        want = x.a
                        for ax, (M, cs) in enumerate(refs):
                            want = apply_axis(want, ax, M, cs, False)
                        args = [x, tuple(shape_out)]
                    else:
                        x = symbols('y', shape_out)
                        want = x.a
                        for ax, (M, cs) in enumerate(refs):
                            want = apply_axis(want, ax, M, cs, True)
                        args = [x, tuple(shape_in)]
                    try:
                        I = NAInterp(model, {}, H())
                        out = I.call_func(
                            Func(fn, I.env_of(NUM), None), args,
                            {'offset': list(offset), 'pad_mode': mode,
                             'direction': direction})
                    except PyRaise as e:
                        bad.append('offset %r: raises %s' % (offset, e.name))
                        continue
                    except (Undecided, Fork) as e:
                        und = und or 'offset %r: %s' % (offset, e)
                        continue
                    if not isinstance(out, NA) or out.a.shape != want.shape:
                        bad.append('offset %r: result %r' % (offset, out))
                        continue
                    for idx in _np.ndindex(*want.shape):
                        g = out.a[idx]
                        if g is None or not (to_rat(g) - to_rat(
                                want[idx])).is_zero():
                            bad.append('offset %r: entry %r is %r, the '
                                       'separable rule gives %r'
                                       % (offset, idx, g, want[idx]))
                            break
                cons = 'resize_array[%s,%s,%s->%s]' % (
                    mode, direction, 'x'.join(map(str, shape_in)),
                    'x'.join(map(str, shape_out)))
                if und:
                    rep.undecided('R5', cons, und, NUM, fn.lineno)
                elif bad:
                    rep.violation('R5', 'resize_array[%s]' % mode,
                                  '%s: %d of %d offsets fail; first: %s'
                                  % (cons, len(bad), cnt, bad[0]), NUM,
                                  fn.lineno)
                else:
                    rep.holds('R5', cons, '%d offsets' % cnt)
    rep.floor('R5', 'multi-axis configurations', n, 100)
