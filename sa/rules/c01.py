"""C01 -- vector arithmetic is element-wise exact under every aliasing
pattern.  See DESIGN.md section C01."""
from __future__ import annotations

import ast
import itertools

from ..core import Report, Undecided, AnalysisError
from ..srcmodel import Model
from ..forks import explore, Fork, INFEASIBLE
from ..ratfun import Rat
from .. import vs
from ..symex import (Interp, Hooks, Vec, PVec, SpaceV, FieldV, Func, Bound,
                     Builtin, Opaque, ModuleV, NI, PyRaise, is_scalar,
                     to_rat, _Cond)

NPY = 'odl/space/npy_tensors.py'
SPACE = 'odl/set/space.py'
PSPACE = 'odl/space/pspace.py'
DISCR = 'odl/discr/discr_space.py'

REGIMES = ('small', 'fallback_medium', 'fallback_large', 'blas')
ALIASES = ('none', 'x1 is x2', 'out is x1', 'out is x2', 'all')


class Infeasible(Exception):
    pass


class LHooks(Hooks):
    """Semantics of the NumPy/BLAS layer under ``_lincomb_impl``."""

    def __init__(self, regime):
        self.regime = regime
        self.subst = {}
        self.facts = []           # Rats known to be non-zero
        self.int_unsafe = []      # in-place true divisions on arrays
        self.written = []         # ids of written cells

    # arrays: element.data is the cell itself; ravel() is a view (R1b)
    def on_getattr(self, interp, obj, name):
        if isinstance(obj, Vec):
            if name == 'data':
                return obj
            if name == 'ravel':
                return Builtin('ravel', lambda *a, **k: obj)
            if name == 'size':
                return Opaque('size')
            if name == 'flags':
                return Opaque('flags')
        if isinstance(obj, Opaque) and obj.desc == 'flags':
            return Opaque('flags.' + name)
        return NotImplemented

    def on_name(self, interp, name):
        if name == 'native':
            return Builtin('native', lambda v: v)
        return NotImplemented

    def on_call(self, interp, f, args, kwargs, node):
        if isinstance(f, Func) and f.name == '_blas_is_applicable':
            return self.regime == 'blas'
        if isinstance(f, ModuleV) and f.name.endswith('get_blas_funcs'):
            names = args[0]
            table = {'axpy': Builtin('blas.axpy', self.axpy),
                     'scal': Builtin('blas.scal', self.scal),
                     'copy': Builtin('blas.copy', self.copy)}
            return tuple(table[n] for n in names)
        return NotImplemented

    # BLAS level-1 summaries (trusted base)
    def scal(self, a, x, n=None):
        a = to_rat(a)
        if self.is_zero(a):
            x.taint |= set(x.val)
        x.val = vs.scale(x.val, a)
        self.written.append(x.id)
        return x

    def axpy(self, x, y, n=None, a=1):
        y.val = vs.add(y.val, vs.scale(x.val, to_rat(a)))
        y.taint |= x.taint
        self.written.append(y.id)
        return y

    def copy(self, x, y, n=None):
        y.val = dict(x.val)
        y.taint = set(x.taint)
        self.written.append(y.id)
        return y

    def is_zero(self, r):
        r2 = r.subs(self.subst) if self.subst else r
        return r2.is_zero()

    def on_augassign(self, interp, stmt, cur, value):
        self.written.append(cur.id)
        if isinstance(stmt.op, ast.Div) and self.regime != 'blas':
            self.int_unsafe.append((stmt.lineno, ast.unparse(stmt)))

    # scalar guards -----------------------------------------------------------
    def on_decide(self, interp, cond, node):
        key = cond.key
        if key.startswith('cmp:') and 'THRESHOLD_SMALL' in key:
            return self.regime == 'small'
        if key.startswith('cmp:') and 'THRESHOLD_MEDIUM' in key:
            return self.regime in ('small', 'fallback_medium')
        if key.startswith('opaque:flags.'):
            return interp.decide(key, node)
        if cond.rat is not None and key.startswith('eq0:'):
            r = cond.rat.subs(self.subst) if self.subst else cond.rat
            if r.is_const():
                return r.constant() == 0
            for f in self.facts:
                f2 = f.subs(self.subst) if self.subst else f
                if r == f2 or r == -f2:
                    return False
            k2 = 'eq0:%r' % (r,)
            val = interp.decide(k2, node)
            if val:
                self.solve(r)
            else:
                self.facts.append(r)
            return val
        return NotImplemented

    def solve(self, r):
        n = r.n
        for v in ('b', 'a'):
            if v in n.vars() and n.degree(v) == 1:
                coef = n.diff(v)
                if coef.is_const():
                    rest = n - coef * Rat.var(v).n
                    self.subst[v] = Rat(-rest, coef)
                    # a contradiction with a recorded fact?
                    for f in self.facts:
                        if f.subs(self.subst).is_zero():
                            raise Infeasible()
                    return
        raise Undecided('cannot solve %r = 0' % (r,))


class LInterp(Interp):
    def scalar_is_zero(self, r):
        return self.hooks.is_zero(r)


def lincomb_leaf(model, impl_fn, regime, alias, aclass, bclass, assume):
    hooks = LHooks(regime)
    I = LInterp(model, assume, hooks)
    X = SpaceV('X', 'R')
    a = {'0': 0, '1': 1, 'g': Rat.var('a')}[aclass]
    b = {'0': 0, '1': 1, 'g': Rat.var('b')}[bclass]
    if aclass == 'g':
        hooks.facts += [Rat.var('a'), Rat.var('a') - 1]
    if bclass == 'g':
        hooks.facts += [Rat.var('b'), Rat.var('b') - 1]
    x1 = Vec(vs.sym('X1'), X)
    x2 = Vec(vs.sym('X2'), X)
    out = Vec(vs.sym('OUT0'), X)
    if alias in ('x1 is x2', 'all'):
        x2 = x1
    if alias in ('out is x1', 'all'):
        out = x1
    if alias == 'out is x2':
        out = x2
    init = {id(v): dict(v.val) for v in (x1, x2, out)}
    expected = vs.add(vs.scale(x1.val, to_rat(a)), vs.scale(x2.val,
                                                             to_rat(b)))
    f = Func(impl_fn, I.env_of(NPY), None)
    try:
        I.call_func(f, [a, x1, b, x2, out], {})
    except Infeasible:
        return INFEASIBLE

    def sub(lf):
        return {k: v.subs(hooks.subst) for k, v in lf.items()
                if not v.subs(hooks.subst).is_zero()} if hooks.subst else lf
    final = sub(out.val)
    exp = sub(expected)
    res = {
        'ok': vs.lf_eq(final, exp),
        'final': vs.show(final), 'expected': vs.show(exp),
        'operand_written': [n for n, v in (('x1', x1), ('x2', x2))
                            if v is not out and v.val != init[id(v)]],
        'stale': (out is not x1 and out is not x2 and (
            ('sym', 'OUT0') in final or ('sym', 'OUT0') in out.taint)),
        'taint': set(out.taint), 'final_lf': final,
        'int_unsafe': list(hooks.int_unsafe),
        'subst': dict(hooks.subst),
    }
    return res


def check(ctx):
    rep = Report(
        'C01', ctx, 'proof',
        'R1: _lincomb_impl is interpreted symbolically for every size/BLAS '
        'regime x identity-aliasing pattern of (x1, x2, out) x scalar class '
        'of a and b {0, 1, generic}; scalar guards are decided from facts, '
        'solved (a + b == 0 -> b := -a) or forked, so every feasible leaf '
        'of the decision tree is reached; at each leaf the out cell must '
        'equal a*X1 + b*X2 as a linear form with rational-function '
        'coefficients, operands that are not out must be unwritten and the '
        'previous content of a non-operand out must have no influence (not '
        'even through 0 * old).  R1b: the BLAS guard returns True only for '
        'equal BLAS dtypes, uniformly contiguous arrays and int32 sizes.  '
        'R2: no integer-unsafe in-place division in the non-BLAS regimes.  '
        'R3: every arithmetic dunder of LinearSpaceElement denotes its '
        'operator, returns a fresh object (self for in-place forms) and '
        'leaves operands untouched.  R4: ProductSpace / DiscretizedSpace / '
        'NumpyTensorSpace forward (a, x1, b, x2, out) in unchanged roles; '
        'LinearSpace.lincomb/multiply/divide check membership before '
        'delegating.  R4b: power-space broadcasting applies the same-named '
        'dunder to every part.  R1L (memory-layout tier): _lincomb_impl '
        'is evaluated on arrays with real NumPy layouts (C / F contiguous, '
        'strided views) and symbolic entries in every size regime (the '
        'thresholds are moved, the arrays stay small), aliasing pattern and '
        'scalar class, with BLAS axpy / scal / copy acting in place on the '
        'array objects they are handed: out must hold a*x1 + b*x2 and the '
        'operands must be unchanged.',
        ['CPython ast', 'BLAS level-1 semantics: scal(a,x): x*=a; '
         'axpy(x,y,n,a): y+=a*x; copy(x,y): y=x', 'NumPy in-place '
         'arithmetic is element-wise', 'ravel() of contiguous data is a '
         'view (guarded by R1b)'],
        ['floating-point rounding', 'strided memory overlap that is not '
         'object identity', 'Python dispatch between two operands of the '
         'same type for nested power spaces (diagnostic F39)'])
    model = Model(ctx)
    impl = ctx.func(NPY, '_lincomb_impl')
    n_leaves = 0
    bad_int = {}
    for regime in REGIMES:
        for alias in ALIASES:
            for ac, bc in itertools.product('01g', '01g'):
                tag = '_lincomb_impl[%s,%s,a=%s,b=%s]' % (regime, alias, ac,
                                                         bc)
                try:
                    leaves = explore(
                        lambda assume: lincomb_leaf(model, impl, regime,
                                                    alias, ac, bc, assume),
                        limit=64)
                except Undecided as e:
                    rep.undecided('R1', tag, str(e), NPY, impl.lineno)
                    continue
                except PyRaise as e:
                    rep.violation('R1', '_lincomb_impl', '%s: raises %s'
                                  % (tag, e.name), NPY, impl.lineno)
                    continue
                for assume, res in leaves:
                    n_leaves += 1
                    leaf = tag + (' under %s' % {k: str(v) for k, v in
                                                 res['subst'].items()}
                                  if res['subst'] else '')
                    if not res['ok']:
                        rep.violation(
                            'R1', '_lincomb_impl',
                            '%s: out ends as %s, expected %s'
                            % (leaf, res['final'], res['expected']), NPY,
                            impl.lineno)
                    elif res['operand_written']:
                        rep.violation(
                            'R1', '_lincomb_impl',
                            '%s: operand %s (not the output) is modified'
                            % (leaf, res['operand_written']), NPY,
                            impl.lineno)
                    elif res['stale']:
                        rep.violation(
                            'R1', '_lincomb_impl',
                            '%s: the previous contents of out influence the '
                            'result (read, or multiplied by a zero scalar: '
                            '0 * NaN = NaN)' % leaf, NPY, impl.lineno)
                    else:
                        rep.holds('R1', leaf, 'out = %s' % res['expected'])
                    for ln, txt in res['int_unsafe']:
                        bad_int[(ln, txt)] = leaf
    rep.count('lincomb_leaves', n_leaves)
    rep.floor('R1', 'feasible leaves of _lincomb_impl', n_leaves, 200)
    # R2 ---------------------------------------------------------------------
    if bad_int:
        for (ln, txt), leaf in sorted(bad_int.items()):
            rep.violation(
                'R2', '_lincomb_impl',
                'in-place true division `%s` is applied to an array in a '
                'regime that is entered for every dtype (%s): it raises '
                'UFuncTypeError for integer spaces' % (txt, leaf), NPY, ln)
    else:
        rep.holds('R2', '_lincomb_impl', 'no integer-unsafe in-place '
                  'operation in the non-BLAS regimes')
    _blas_guard(ctx, rep)
    _dunders(ctx, rep, model)
    _delegation(ctx, rep, model)
    _broadcast(ctx, rep)
    from . import c01b
    c01b.layout_rules(rep, model, ctx.tier == 'thorough')
    c01b.guard_rules(rep, model)
    c01b.pointwise_rules(rep, model)
    c01b.copy_rules(rep, model)
    c01b.scalar_type_rules(rep, model)
    c01b.pspace_scalar_rules(rep, model)
    c01b.size_rules(rep, model)
    return rep


def set_zero_kills(ctx, model=None):
    """Derived (not assumed) kill semantics of ``element.set_zero()`` ==
    ``lincomb(0, x, 0, x, out=x)``: True iff in every regime the all-aliased
    a = b = 0 leaf leaves exactly zero without reading the old content."""
    model = model or Model(ctx)
    impl = ctx.func(NPY, '_lincomb_impl')
    for regime in REGIMES:
        leaves = explore(lambda assume: lincomb_leaf(
            model, impl, regime, 'all', '0', '0', assume), limit=64)
        for a, res in leaves:
            if res['final_lf'] or res['taint']:
                return False, regime
    return True, None


# --------------------------------------------------------------------------
# R1b: BLAS guard as a boolean function on a finite model
def _blas_guard(ctx, rep):
    fn = ctx.func(NPY, '_blas_is_applicable')
    consts = {}
    DT = ('f64', 'f32', 'i64')
    CONT = ('C', 'F', 'CF', 'none')
    SIZES = ('ok', 'huge')

    class Arr(object):
        def __init__(self, dt, cont, size):
            self.dt, self.cont, self.sz = dt, cont, size

    def ev(n, env):
        if isinstance(n, ast.Constant):
            return n.value
        if isinstance(n, ast.Name):
            if n.id in env:
                return env[n.id]
            if n.id == '_BLAS_DTYPES':
                return ('f64', 'f32')
            raise Undecided('name %s' % n.id)
        if isinstance(n, ast.Attribute):
            if ast.unparse(n) == "np.iinfo('int32').max":
                return 'INT32MAX'
            b = ev(n.value, env)
            if isinstance(b, Arr):
                if n.attr == 'dtype':
                    return b.dt
                if n.attr == 'flags':
                    return ('flags', b)
                if n.attr == 'size':
                    return ('size', b.sz)
            if isinstance(b, tuple) and b and b[0] == 'flags':
                if n.attr == 'f_contiguous':
                    return 'F' in b[1].cont
                if n.attr == 'c_contiguous':
                    return 'C' in b[1].cont
                if n.attr == 'contiguous':
                    return b[1].cont != 'none'
            raise Undecided('attribute %s' % ast.unparse(n))
        if isinstance(n, ast.Subscript):
            b = ev(n.value, env)
            if isinstance(n.slice, ast.Slice):
                lo = ev(n.slice.lower, env) if n.slice.lower else None
                hi = ev(n.slice.upper, env) if n.slice.upper else None
                return b[lo:hi]
            return b[ev(n.slice, env)]
        if isinstance(n, ast.UnaryOp) and isinstance(n.op, ast.Not):
            return not ev(n.operand, env)
        if isinstance(n, ast.BoolOp):
            vals = [ev(v, env) for v in n.values]
            return all(vals) if isinstance(n.op, ast.And) else any(vals)
        if isinstance(n, ast.Compare) and len(n.ops) == 1:
            l, r = ev(n.left, env), ev(n.comparators[0], env)
            op = n.ops[0]
            if isinstance(op, ast.Eq):
                return l == r
            if isinstance(op, ast.NotEq):
                return l != r
            if isinstance(op, ast.In):
                return l in r
            if isinstance(op, ast.NotIn):
                return l not in r
            if isinstance(op, (ast.Gt, ast.GtE)) and r == 'INT32MAX':
                return l == ('size', 'huge')
            if isinstance(op, (ast.Lt, ast.LtE)) and r == 'INT32MAX':
                return l != ('size', 'huge')
            raise Undecided('comparison %s' % ast.unparse(n))
        if isinstance(n, ast.Call) and isinstance(n.func, ast.Name) and \
                n.func.id in ('any', 'all') and len(n.args) == 1 and \
                isinstance(n.args[0], ast.GeneratorExp):
            g = n.args[0]
            it = ev(g.generators[0].iter, env)
            vals = []
            for item in it:
                e2 = dict(env)
                e2[g.generators[0].target.id] = item
                vals.append(ev(g.elt, e2))
            return any(vals) if n.func.id == 'any' else all(vals)
        raise Undecided('expression %s' % ast.unparse(n))

    def run(stmts, env):
        for s in stmts:
            if isinstance(s, ast.Expr) and isinstance(s.value, ast.Constant):
                continue
            if isinstance(s, ast.If):
                r = run(s.body if ev(s.test, env) else s.orelse, env)
                if r is not None:
                    return r
                continue
            if isinstance(s, ast.Return):
                return bool(ev(s.value, env))
            raise Undecided('statement %s' % ast.unparse(s)[:40])
        return None

    argname = fn.args.vararg.arg if fn.args.vararg else None
    if argname is None:
        rep.undecided('R1b', '_blas_is_applicable', 'signature changed',
                      NPY, fn.lineno)
        return
    cons = '_blas_is_applicable'
    n = 0
    try:
        kinds = [Arr(d, c, z) for d in DT for c in CONT for z in SIZES]
        # pairs suffice to expose any weakened conjunct; triples in thorough
        width = 3 if ctx.tier == 'thorough' else 2
        for combo in itertools.product(kinds, repeat=width):
            n += 1
            got = run(fn.body, {argname: tuple(combo)})
            want = (len({a.dt for a in combo}) == 1
                    and combo[0].dt in ('f64', 'f32')
                    and (all('F' in a.cont for a in combo)
                         or all('C' in a.cont for a in combo))
                    and all(a.sz == 'ok' for a in combo))
            if got and not want:
                rep.violation(
                    'R1b', cons,
                    'returns True for arrays %s: the BLAS arm treats '
                    'ravel() as a view and calls typed BLAS kernels, which '
                    'needs equal BLAS dtypes, uniform contiguity and int32 '
                    'sizes' % [(a.dt, a.cont, a.sz) for a in combo], NPY,
                    fn.lineno)
                return
        rep.holds('R1b', cons, 'True only for equal BLAS dtypes, uniformly '
                  'contiguous arrays with int32 sizes (%d array tuples)'
                  % n)
    except Undecided as e:
        # the finite model does not cover this formulation of the guard;
        # R1c (c01b.guard_rules) interprets it on real NumPy dtypes
        rep.diagnostic('R1b finite model not applicable (%s); decided by '
                       'R1c' % e)
    # the ravel order is applied to all three arrays alike
    impl = ctx.func(NPY, '_lincomb_impl')
    orders = set()
    for c in ast.walk(impl):
        if isinstance(c, ast.Call) and isinstance(c.func, ast.Attribute) \
                and c.func.attr == 'ravel':
            kw = [k for k in c.keywords if k.arg == 'order']
            orders.add(ast.unparse(kw[0].value) if kw else (
                ast.unparse(c.args[0]) if c.args else 'default'))
    if len(orders) > 1:
        rep.violation('R1b', '_lincomb_impl', 'the three arrays are '
                      'ravelled with different orders %s' % sorted(orders),
                      NPY, impl.lineno)
    else:
        rep.holds('R1b', '_lincomb_impl:ravel', 'one ravel order for all '
                  'arrays')


# --------------------------------------------------------------------------
# R3: dunders of LinearSpaceElement
class DHooks(Hooks):
    pass


def _dunders(ctx, rep, model):
    elem = model.get('LinearSpaceElement')

    def ONE():
        return vs.sym('ONE')

    def expect(name, x, o, osort, p=None):
        s = to_rat(o) if osort == 'scalar' else None
        ov = o.val if osort == 'vec' else None
        sc = (lambda: vs.scale(ONE(), s))
        if name in ('__add__', '__radd__', '__iadd__'):
            return vs.add(x, ov) if ov is not None else vs.add(x, sc())
        if name in ('__sub__', '__isub__'):
            return vs.add(x, ov, -1) if ov is not None else \
                vs.add(x, sc(), -1)
        if name == '__rsub__':
            return vs.add(ov, x, -1) if ov is not None else \
                vs.add(sc(), x, -1)
        if name in ('__mul__', '__rmul__', '__imul__'):
            return vs.mul(x, ov) if ov is not None else vs.scale(x, s)
        if name in ('__truediv__', '__itruediv__', '__div__', '__idiv__'):
            return vs.div(x, ov) if ov is not None else \
                vs.scale(x, Rat.const(1) / s)
        if name in ('__rtruediv__', '__rdiv__'):
            return vs.div(ov, x) if ov is not None else vs.div(sc(), x)
        if name == '__neg__':
            return vs.scale(x, -1)
        if name in ('__pos__', 'copy', '__copy__'):
            return dict(x)
        if name in ('__pow__', '__ipow__'):
            if p >= 0:
                return vs.powv(x, Rat.const(p)) if p else ONE()
            return vs.div(ONE(), vs.powv(x, Rat.const(-p)))
        raise AnalysisError(name)

    binary = ['__add__', '__radd__', '__iadd__', '__sub__', '__rsub__',
              '__isub__', '__mul__', '__rmul__', '__imul__', '__truediv__',
              '__rtruediv__', '__itruediv__']
    unary = ['__neg__', '__pos__', 'copy']
    n = 0
    for name in binary + unary + ['__pow__', '__ipow__', 'assign',
                                  'set_zero', 'lincomb']:
        dc, m = model.lookup(elem, name)
        if m is None:
            raise AnalysisError('anchor vanished: LinearSpaceElement.%s'
                                % name)
    for field in ('R', 'C'):
        for name in binary:
            for osort in ('vec', 'scalar'):
                n += 1
                _dunder_case(rep, model, elem, name, field, osort, None,
                             expect)
        for name in unary:
            n += 1
            _dunder_case(rep, model, elem, name, field, None, None, expect)
        for name in ('__pow__', '__ipow__'):
            for p in (0, 1, 2, 3, 4, 5, 6, -1, -2):
                n += 1
                _dunder_case(rep, model, elem, name, field, 'int', p, expect)
    rep.count('dunder_cases', n)
    rep.floor('R3', 'dunder cases', n, 60)
    # every arithmetic dunder defers to a higher __array_priority__ first
    for name in ('__add__', '__sub__', '__mul__', '__truediv__', '__radd__',
                 '__rsub__', '__rmul__', '__rtruediv__'):
        dc, m = model.lookup(elem, name)
        src = ast.unparse(m)
        if '__array_priority__' not in src:
            rep.violation('R3', 'LinearSpaceElement.' + name,
                          'does not defer to operands with a higher '
                          '__array_priority__ (operators rely on it)',
                          dc.rel, m.lineno)
        else:
            rep.holds('R3', 'LinearSpaceElement.%s:priority' % name,
                      'defers to higher __array_priority__')


def _dunder_case(rep, model, elem, name, field, osort, p, expect):
    dc, m = model.lookup(elem, name)
    if isinstance(m, ast.Name):
        dc, m = model.lookup(elem, m.id)
    tag = 'LinearSpaceElement.%s[%s%s%s]' % (
        name, field, ',other=%s' % osort if osort else '',
        ',p=%d' % p if p is not None else '')
    cons = 'LinearSpaceElement.' + name
    inplace = name.startswith('__i') and name not in ('__init__',)

    def once(assume):
        I = Interp(model, assume, DHooks())
        X = SpaceV('X', field)
        x = Vec(vs.sym('x'), X)
        x0 = dict(x.val)
        if osort == 'vec':
            o = Vec(vs.sym('y'), X)
        elif osort == 'scalar':
            o = Rat.var('a')
            I.nonzero.append(o)
        elif osort == 'int':
            o = p
        else:
            o = None
        o0 = dict(o.val) if isinstance(o, Vec) else None
        f = Func(m, I.env_of(dc.rel), dc)
        args = [] if o is None else [o]
        r = I.call_func(f, args, {}, x)
        res = {'ret': r, 'x': x, 'o': o, 'x0': x0, 'o0': o0}
        res['want'] = expect(name, x0, o, osort, p)
        return res
    try:
        leaves = explore(once, limit=50)
    except Undecided as e:
        rep.undecided('R3', tag, str(e), dc.rel, m.lineno)
        return
    except PyRaise as e:
        rep.violation('R3', cons, '%s: raises %s' % (tag, e.name), dc.rel,
                      m.lineno)
        return
    for a, res in leaves:
        r, x, o = res['ret'], res['x'], res['o']
        if r is NI or not isinstance(r, Vec):
            rep.violation('R3', cons, '%s: returns %r instead of an element'
                          % (tag, r), dc.rel, m.lineno)
            continue
        probs = []
        if not vs.lf_eq(r.val, res['want']):
            probs.append('denotes %s, expected %s'
                         % (vs.show(r.val), vs.show(res['want'])))
        if inplace:
            if r is not x:
                probs.append('in-place form does not return self')
        else:
            if r is x or r is o:
                probs.append('out-of-place form returns an operand instead '
                             'of a fresh element')
            if not vs.lf_eq(x.val, res['x0']):
                probs.append('self is modified (%s)' % vs.show(x.val))
        if isinstance(o, Vec) and not vs.lf_eq(o.val, res['o0']):
            probs.append('the other operand is modified')
        stale = [k for k in r.val if k[0] == 'sym' and '#' in str(k[1])]
        if stale:
            probs.append('uninitialised memory %s reaches the result'
                         % stale)
        if probs:
            rep.violation('R3', cons, '%s: %s' % (tag, '; '.join(probs)),
                          dc.rel, m.lineno)
        else:
            rep.holds('R3', tag, vs.show(res['want']))


# --------------------------------------------------------------------------
# R4 delegation
def _delegation(ctx, rep, model):
    # component-wise delegation in ProductSpace
    for meth, roles in (('_lincomb', ['a', 'x', 'b', 'y', 'out']),
                        ('_multiply', ['x1', 'x2', 'out']),
                        ('_divide', ['x1', 'x2', 'out'])):
        fn = ctx.method(PSPACE, 'ProductSpace', meth)
        cons = 'ProductSpace.' + meth
        params = [a.arg for a in fn.args.args][1:]
        loops = [s for s in fn.body if isinstance(s, ast.For)]
        ok = False
        detail = 'no component loop'
        if len(loops) == 1:
            lp = loops[0]
            it = lp.iter
            if isinstance(it, ast.Call) and ast.unparse(it.func) == 'zip' \
                    and isinstance(lp.target, ast.Tuple):
                # map loop variable -> parameter it iterates
                m = {}
                for t, a in zip(lp.target.elts, it.args):
                    src = ast.unparse(a)
                    for p in params:
                        if src in (p + '.parts', p):
                            m[t.id] = p
                    if src == 'self.spaces':
                        m[t.id] = '<space>'
                calls = [c for c in ast.walk(lp) if isinstance(c, ast.Call)
                         and isinstance(c.func, ast.Attribute)
                         and c.func.attr == meth]
                if len(calls) == 1:
                    c = calls[0]
                    got = []
                    for a in c.args:
                        if isinstance(a, ast.Name):
                            got.append(m.get(a.id, a.id))
                        else:
                            got.append(ast.unparse(a))
                    recv = ast.unparse(c.func.value)
                    if got == params and m.get(recv) == '<space>':
                        ok = True
                    else:
                        detail = ('component call passes %s for parameters '
                                  '%s' % (got, params))
        if ok:
            rep.holds('R4', cons, 'forwards %s component-wise in unchanged '
                      'roles' % params)
        else:
            rep.violation('R4', cons, detail, PSPACE, fn.lineno)
    # DiscretizedSpace -> tspace with .tensor of each operand
    for meth in ('_lincomb', '_multiply', '_divide'):
        fn = ctx.method(DISCR, 'DiscretizedSpace', meth)
        cons = 'DiscretizedSpace.' + meth
        params = [a.arg for a in fn.args.args][1:]
        calls = [c for c in ast.walk(fn) if isinstance(c, ast.Call)
                 and isinstance(c.func, ast.Attribute)
                 and c.func.attr == meth]
        want = [p if p in ('a', 'b') else p + '.tensor' for p in params]
        if len(calls) == 1 and [ast.unparse(a) for a in calls[0].args] == \
                want and ast.unparse(calls[0].func.value) == 'self.tspace':
            rep.holds('R4', cons, 'forwards to tspace with the coefficient '
                      'tensors in unchanged roles')
        else:
            rep.violation('R4', cons, 'does not forward %s to self.tspace.%s'
                          % (want, meth), DISCR, fn.lineno)
    # NumpyTensorSpace
    fn = ctx.method(NPY, 'NumpyTensorSpace', '_lincomb')
    calls = [c for c in ast.walk(fn) if isinstance(c, ast.Call)
             and ast.unparse(c.func) == '_lincomb_impl']
    params = [a.arg for a in fn.args.args][1:]
    if len(calls) == 1 and [ast.unparse(a) for a in calls[0].args] == params:
        rep.holds('R4', 'NumpyTensorSpace._lincomb', 'forwards to '
                  '_lincomb_impl in unchanged roles')
    else:
        rep.violation('R4', 'NumpyTensorSpace._lincomb', 'does not forward '
                      '%s to _lincomb_impl' % params, NPY, fn.lineno)
    # NumpyTensorSpace._multiply / _divide: evaluated (c01b.pointwise_rules)
    # LinearSpace.lincomb / multiply / divide: membership checks dominate
    from ..paths import walk_paths, strip_doc
    for meth, prim, operands in (
            ('lincomb', '_lincomb', ['out', 'x1', 'x2']),
            ('multiply', '_multiply', ['out', 'x1', 'x2']),
            ('divide', '_divide', ['out', 'x1', 'x2'])):
        fn = ctx.method(SPACE, 'LinearSpace', meth)
        cons = 'LinearSpace.' + meth
        paths = walk_paths(strip_doc(fn.body))
        probs = []
        nprim = 0
        for p in paths:
            idx = None
            call = None
            for i, ev in enumerate(p):
                if ev[0] == 'stmt':
                    for c in ast.walk(ev[1]):
                        if isinstance(c, ast.Call) and isinstance(
                                c.func, ast.Attribute) and \
                                c.func.attr == prim:
                            idx, call = i, c
            if idx is None:
                continue
            nprim += 1
            before = p[:idx]
            args = [ast.unparse(a) for a in call.args]
            # every *distinct* element argument must have failed a
            # `not in self` test before; `out` may instead be allocated
            for a in call.args:
                if not isinstance(a, ast.Name):
                    continue
                nm = a.id
                if nm in ('a', 'b'):
                    continue
                tested = any(
                    ev[0] == 'assume' and isinstance(ev[1], ast.Compare)
                    and ast.unparse(ev[1]) == '%s not in self' % nm
                    and ev[2] is False for ev in before)
                allocated = any(
                    ev[0] == 'stmt' and isinstance(ev[1], ast.Assign)
                    and ast.unparse(ev[1].targets[0]) == nm
                    and ast.unparse(ev[1].value) == 'self.element()'
                    for ev in before)
                if not (tested or allocated):
                    probs.append('%s reaches %s without a membership test'
                                 % (nm, prim))
            # roles
            if meth == 'lincomb':
                if args not in (['a', 'x1', 'b', 'x2', 'out'],
                                ['a', 'x1', '0', 'x1', 'out']):
                    probs.append('%s called with %s' % (prim, args))
            else:
                if args != ['x1', 'x2', 'out']:
                    probs.append('%s called with %s' % (prim, args))
            term = p[-1]
            if term[0] == 'return' and ast.unparse(term[1].value) != 'out':
                probs.append('returns %s, not out' % ast.unparse(
                    term[1].value))
            if term[0] == 'fall':
                probs.append('falls off the end without returning out')
        if nprim == 0:
            rep.violation('R4', cons, 'never reaches %s' % prim, SPACE,
                          fn.lineno)
        elif probs:
            rep.violation('R4', cons, '; '.join(sorted(set(probs))), SPACE,
                          fn.lineno)
        else:
            rep.holds('R4', cons, 'membership of out/x1/x2 checked on all '
                      '%d paths before %s; returns out' % (nprim, prim))
    # set_zero / assign / element.lincomb are thin wrappers (value-numbered
    # through R3's engine)
    elem = model.get('LinearSpaceElement')
    for name, want in (('assign', 'o'), ('set_zero', 'zero'),
                       ('lincomb', 'lincomb')):
        dc, m = model.lookup(elem, name)

        def once(assume):
            I = Interp(model, assume, DHooks())
            X = SpaceV('X', 'R')
            x = Vec(vs.sym('x'), X)
            y = Vec(vs.sym('y'), X)
            z = Vec(vs.sym('z'), X)
            f = Func(m, I.env_of(dc.rel), dc)
            if name == 'assign':
                r = I.call_func(f, [y], {}, x)
                exp = dict(y.val)
            elif name == 'set_zero':
                r = I.call_func(f, [], {}, x)
                exp = {}
            else:
                a, b = Rat.var('a'), Rat.var('b')
                r = I.call_func(f, [a, y, b, z], {}, x)
                exp = vs.add(vs.scale(y.val, a), vs.scale(z.val, b))
            return (r is x, vs.lf_eq(x.val, exp), vs.show(x.val),
                    vs.show(exp))
        cons = 'LinearSpaceElement.' + name
        try:
            for a, (isself, ok, got, exp) in explore(once, limit=20):
                if not ok or not isself:
                    rep.violation('R4', cons, 'leaves %s in self (expected '
                                  '%s)%s' % (got, exp, '' if isself else
                                             '; does not return self'),
                                  dc.rel, m.lineno)
                else:
                    rep.holds('R4', cons, 'self := %s' % exp)
        except Undecided as e:
            rep.undecided('R4', cons, str(e), dc.rel, m.lineno)
        except PyRaise as e:
            rep.violation('R4', cons, 'raises %s' % e.name, dc.rel, m.lineno)


# --------------------------------------------------------------------------
# R4b power-space broadcasting, evaluated: every generated dunder is built
# by interpreting _broadcast_arithmetic(name) and applied to a power-space
# element and an operand of the base space - a fresh element, and each of
# the parts of the element itself (the operand of an in-place form is then
# a part of the output)
def _broadcast(ctx, rep):
    from ..srcmodel import Model
    from ..spacemodel import (SMInterp, SMHooks, NSpace, NPSpace, NElem,
                              NPElem, sym_elem, flat)
    from ..symex import Func
    from .. import posalg as PA
    from .c05b import witness
    WIT = [witness(21), witness(22)]
    model = Model(ctx)
    tree = ctx.tree(PSPACE)
    fn = ctx.func(PSPACE, '_broadcast_arithmetic')
    if fn is None:
        raise AnalysisError('anchor vanished: _broadcast_arithmetic')
    # the names installed on ProductSpaceElement: evaluated from the
    # installing loop (two nested loops over literal lists and a format)
    names = []
    for s in tree.body:
        if isinstance(s, ast.For) and any(
                isinstance(c, ast.Call) and ast.unparse(c.func) == 'setattr'
                and 'ProductSpaceElement' in ast.unparse(c.args[0])
                for c in ast.walk(s)):
            I = SMInterp(model, {}, SMHooks())
            rec = []

            class H(SMHooks):
                def on_name(self, interp, name):
                    if name == 'setattr':
                        return Builtin('setattr', lambda o, n, f: rec.append(
                            (n, f)))
                    return SMHooks.on_name(self, interp, name)
            I = SMInterp(model, {}, H())
            from ..symex import _Scope as Scope
            try:
                I.exec_block([s], Scope(I.env_of(PSPACE)), None)
            except Exception as e:          # noqa
                rep.undecided('R4b', '_broadcast_arithmetic', 'installing '
                              'loop: %s' % e, PSPACE, s.lineno)
                return
            names = rec
    rep.floor('R4b', 'generated broadcasting dunders', len(names), 15)
    ops = {'add': lambda a, b: a + b, 'sub': lambda a, b: a - b,
           'mul': lambda a, b: a * b, 'div': lambda a, b: a / b,
           'truediv': lambda a, b: a / b}
    n = 0
    for name, impl in names:
        core = name.strip('_')
        kind = ''
        for k in ('i', 'r'):
            if core.startswith(k) and core[1:] in ops:
                kind, core = k, core[1:]
        if core not in ops:
            rep.undecided('R4b', name, 'unknown generated dunder', PSPACE,
                          fn.lineno)
            continue
        f = ops[core]
        for which in ('fresh', 'part 0', 'part 1'):
            cons = 'ProductSpaceElement.%s[operand: %s]' % (name, which)
            n += 1
            try:
                I = SMInterp(model, {}, SMHooks())
                X = NSpace((2,), 'float64', Rat.var('w'))
                P = NPSpace([X, X], None)
                x = sym_elem(P, 'x')
                old = [list(flat(p)) for p in x.parts]
                other = sym_elem(X, 'y') if which == 'fresh' else \
                    x.parts[int(which[-1])]
                oold = list(flat(other))
                r = I.call(impl, [x, other], {})
            except (Undecided, PyRaise) as e:
                rep.undecided('R4b', cons, str(e), PSPACE, fn.lineno)
                continue
            probs = []
            if not isinstance(r, NPElem) or len(r.parts) != 2:
                probs.append('returns %r' % (r,))
            else:
                for i, part in enumerate(r.parts):
                    for k, g in enumerate(flat(part)):
                        a, b = old[i][k], oold[k]
                        want = f(b, a) if kind == 'r' else f(a, b)
                        if not PA.same(g, want, WIT):
                            probs.append(
                                'part %d entry %d is %r, entry-wise result '
                                '%r' % (i, k, g, want))
                            break
                    if probs:
                        break
                if kind == 'i':
                    if not (r is x or all(p is q for p, q in zip(
                            r.parts, x.parts))):
                        probs.append('the in-place form does not return '
                                     'the element (or its parts)')
                else:
                    if any(not PA.same(g, o, WIT) for p, op_ in zip(
                            x.parts, old) for g, o in zip(flat(p), op_)):
                        probs.append('the element is modified')
                if which == 'fresh' and any(
                        not PA.same(g, o, WIT)
                        for g, o in zip(flat(other), oold)):
                    probs.append('the operand is modified')
            if probs:
                rep.violation('R4b', cons, '; '.join(probs[:2]), PSPACE,
                              fn.lineno)
            else:
                rep.holds('R4b', cons, 'entry-wise result in every part')
    rep.floor('R4b', 'broadcast evaluations', n, 45)
