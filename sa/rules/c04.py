"""C04 -- operator arithmetic means what the algebra table says.
See DESIGN.md section C04."""
from __future__ import annotations

import ast

from ..core import Report, Undecided, AnalysisError
from ..srcmodel import Model
from ..forks import explore
from ..ratfun import Rat
from .. import vs
from ..symex import (Interp, Inst, OpV, Vec, SpaceV, FieldV, NI, PyRaise,
                     to_rat,
                     Func)
from ..opalg import OpHooks, make_interp, apply, flags, OPFILE

FUNFILE = 'odl/solvers/functional/functional.py'


_ENDO = [False]


class Case(object):
    """One evaluation context: spaces, leaf operators, operands."""

    def __init__(self, interp, field, self_linear, other_linear=False):
        I = interp
        self.I = I
        f = field
        self.X = SpaceV('X', f)
        # endo run: the leaf operator maps X to X, so that `out` is in the
        # domain and an aliased evaluation is possible
        self.Y = self.X if _ENDO[0] else SpaceV('Y', f)
        self.W = SpaceV('W', f)
        self.Z = SpaceV('Z', f)
        self.S = I.opsym('S', self.X, self.Y, self_linear)
        self.x = Vec(vs.sym('x'), self.X)
        self.a = Rat.var('a')
        # generic scalars are non-zero (the zero case is a separate sort)
        I.nonzero.extend([Rat.var('a'), Rat.var('s'), Rat.var('t')])
        if f == 'R':
            I.real_scalars.update({'a', 's'})
            I.real_vecs.update({'v', 'x', 'w', 'u', 'h'})


def denote(I, op, x):
    """Value of op(x) as a frozen linear form (out-of-place)."""
    r = apply(I, op, x)
    if isinstance(r, Vec):
        return vs.freeze(r.val)
    if isinstance(r, Rat):
        return ('scalar', r)
    raise Undecided('operator result %r' % (r,))


def denote_ip(I, op, x, space):
    o = I.fresh_vec(space, 'stale')
    I.alias_poison = True
    try:
        r = apply(I, op, x, out=o)
    finally:
        I.alias_poison = False
    if r is not None and r is not o:
        raise Undecided('in-place call returned another object')
    return vs.freeze(o.val), o.label


def run_leaves(model, fn):
    """Run ``fn(interp)`` over all forks; returns list of results."""
    def once(assume):
        I = make_interp(model, assume)
        return fn(I)
    return [r for a, r in explore(once, limit=200)]


OUTCOME_NI = 'NotImplemented'


def eval_dunder(model, clsname, meth, field, self_lin, osort, other_lin,
                special=None):
    """Evaluate ``self.<meth>(other)`` symbolically.  Returns a list (one per
    fork leaf) of dicts with the outcome and the expected denotation."""
    def body(I):
        c = Case(I, field, self_lin)
        hooks = I.hooks
        S = c.S
        if meth == '__pow__':
            S = I.opsym('S', c.X, c.X, self_lin)     # endomorphism
        x = c.x
        if special == 'rsm':
            # self is OperatorRightScalarMult(A, s)
            A = I.opsym('A', c.X, c.Y, self_lin)
            s = Rat.var('s')
            S = I.instantiate(model.get('OperatorRightScalarMult'), [A, s],
                              {})
        # operand
        if osort == 'op_sum':
            other = I.opsym('B', c.X, c.Y, other_lin)
        elif osort == 'op_right':       # self * B : B maps W -> X
            other = I.opsym('B', c.W, c.X, other_lin)
            x = Vec(vs.sym('x'), c.W)
        elif osort == 'op_left':        # B * self : B maps Y -> Z
            other = I.opsym('B', c.Y, c.Z, other_lin)
        elif osort == 'scalar':
            other = c.a
        elif osort == 'vran':
            other = Vec(vs.sym('v'), c.Y)
        elif osort == 'vdom':
            other = Vec(vs.sym('v'), c.X)
        elif osort == 'int':
            other = other_lin           # the integer itself
        elif osort == 'none':
            other = None
        else:
            raise AnalysisError('sort %s' % osort)

        def Sx(t):
            return apply(I, S, t)

        # expected value per the documented table --------------------------------
        exp = None
        m = meth
        xv = x
        if m in ('__mul__', '__matmul__'):
            if osort == 'op_right':
                exp = lambda: Sx(apply(I, other, xv))
            elif osort == 'scalar':
                exp = lambda: Sx(I.binop(ast.Mult, other, xv))
            elif osort == 'vdom':
                exp = lambda: Sx(I.binop(ast.Mult, other, xv))
        elif m in ('__rmul__', '__rmatmul__'):
            if osort == 'op_left':
                exp = lambda: apply(I, other, Sx(xv))
            elif osort == 'scalar':
                exp = lambda: I.binop(ast.Mult, other, Sx(xv))
            elif osort == 'vran':
                exp = lambda: I.binop(ast.Mult, other, Sx(xv))
        elif m in ('__add__', '__radd__'):
            if osort == 'op_sum':
                exp = lambda: I.binop(ast.Add, Sx(xv), apply(I, other, xv))
            elif osort in ('scalar', 'vran'):
                exp = lambda: I.binop(ast.Add, Sx(xv), other)
        elif m == '__sub__':
            if osort == 'op_sum':
                exp = lambda: I.binop(ast.Sub, Sx(xv), apply(I, other, xv))
            elif osort in ('scalar', 'vran'):
                exp = lambda: I.binop(ast.Sub, Sx(xv), other)
        elif m == '__rsub__':
            if osort == 'op_sum':
                exp = lambda: I.binop(ast.Sub, apply(I, other, xv), Sx(xv))
            elif osort in ('scalar', 'vran'):
                exp = lambda: I.binop(ast.Sub, other, Sx(xv))
        elif m == '__truediv__':
            if osort == 'scalar':
                exp = lambda: Sx(I.binop(ast.Div, xv, other))
        elif m == '__neg__':
            exp = lambda: I.binop(ast.Mult, -1, Sx(xv))
        elif m == '__pos__':
            exp = lambda: Sx(xv)
        elif m == '__pow__' and osort == 'int':
            def exp():
                t = xv
                for _ in range(other):
                    t = Sx(t)
                return t
        # evaluate the code ---------------------------------------------------------
        res = {'exp': None, 'got': None, 'outcome': None}
        try:
            if osort == 'none':
                got = hooks.call_dunder(I, S, meth, None) if False else \
                    I.call_func(_method(I, S, meth), [], {}, S)
            else:
                got = hooks.call_dunder(I, S, meth, other)
        except PyRaise as e:
            res['outcome'] = 'raises ' + e.name
            got = None
        if got is NI:
            res['outcome'] = OUTCOME_NI
        if exp is not None:
            e = exp()
            res['exp'] = vs.freeze(e.val) if isinstance(e, Vec) else e
            res['exp_show'] = vs.show(e.val) if isinstance(e, Vec) else repr(e)
        if res['outcome'] is None:
            r = apply(I, got, x)
            res['got'] = vs.freeze(r.val) if isinstance(r, Vec) else r
            res['got_show'] = vs.show(r.val) if isinstance(r, Vec) else repr(r)
            res['outcome'] = 'value'
            # in-place arm agrees with the out-of-place arm (C04-R3)
            rng = I.getattr_value(got, 'range')
            if isinstance(rng, SpaceV):
                ipv, stale = denote_ip(I, got, x, rng)
                res['ip'] = ipv
                res['ip_show'] = vs.show(vs.thaw(ipv))
                if rng == x.space:
                    # in-place with `out` aliased to the point (C04-R3a):
                    # the leaves of this model are alias-safe, so the
                    # expression classes must be as well
                    xa = Vec(x.val, x.space)
                    ra = apply(I, got, xa, out=xa)
                    if ra is not None and ra is not xa:
                        raise Undecided('in-place call returned another '
                                        'object')
                    res['alias'] = vs.freeze(xa.val)
                    res['alias_show'] = vs.show(xa.val)
                    # two distinct element objects over one buffer (the
                    # identity test `out is x` does not see them)
                    from ..symex import SharedVec
                    cell = [dict(x.val)]
                    xs_ = SharedVec(cell, x.space)
                    os_ = SharedVec(cell, x.space)
                    rs_ = apply(I, got, xs_, out=os_)
                    if rs_ is not None and rs_ is not os_:
                        raise Undecided('in-place call returned another '
                                        'object')
                    res['shared'] = vs.freeze(os_.val)
                    res['shared_show'] = vs.show(os_.val)
            # metadata (C04-R2)
            d, rg, lin = flags(I, got)
            res['meta'] = (d, rg, lin)
            res['x_space'] = x.space
        return res
    return run_leaves(model, body)


def _method(I, S, meth):
    ci = S.ci if isinstance(S, Inst) else I.model.get('Operator')
    dc, m = I.model.lookup(ci, meth)
    return Func(m, I.env_of(dc.rel), dc)


def expected_meta(meth, osort, self_lin, other_lin):
    """(linear flag) implied by the expression."""
    if meth in ('__mul__', '__matmul__', '__rmul__', '__rmatmul__'):
        if osort in ('op_right', 'op_left'):
            return self_lin and other_lin
        return self_lin
    if meth in ('__add__', '__radd__', '__sub__', '__rsub__'):
        if osort == 'op_sum':
            return self_lin and other_lin
        return False      # affine: operator + vector/scalar
    if meth in ('__truediv__', '__neg__', '__pos__', '__pow__'):
        return self_lin
    return None


def check(ctx):
    rep = Report(
        'C04', ctx, 'proof',
        'Every branch of the arithmetic dunders of Operator (and the '
        'OperatorRightScalarMult.__mul__ shortcut) is evaluated by the '
        'symbolic interpreter for every operand sort {operator, scalar, '
        'range vector, domain vector, integer} x linearity of both operands'
        ' x real/complex field; the returned expression object is then '
        'applied to a symbolic x by interpreting ITS OWN _call (in both '
        'arms), and the resulting term of the free vector-space algebra '
        'must equal the row of the documented table; linearity flag, '
        'domain and range must be those implied by the expression.  By '
        'structural induction this decides arbitrary expression trees.',
        ['CPython ast', 'vector-space axioms; App(L, .) distributes over '
         'sums iff L is declared linear', 'element dunders defer to '
         'operator dunders via __array_priority__ (C01-R3)'],
        ['numerical evaluation of concrete trees (implied by induction)',
         'operands of un-tabled sorts (must give NotImplemented/TypeError)'])
    model = Model(ctx)
    opcls = model.get('Operator')
    rows = []
    dunders = ['__add__', '__radd__', '__sub__', '__rsub__', '__mul__',
               '__matmul__', '__rmul__', '__rmatmul__', '__truediv__',
               '__neg__', '__pos__', '__pow__']
    for m in dunders:
        if m not in opcls.methods:
            raise AnalysisError('anchor vanished: Operator.%s' % m)
    n_inst = 0
    for field in ('R', 'C'):
        for meth in dunders:
            if meth in ('__neg__', '__pos__'):
                sorts = [('none', None)]
            elif meth == '__pow__':
                sorts = [('int', n) for n in (1, 2, 3, 4)]
            else:
                sorts = [('op_sum', None), ('op_right', None),
                         ('op_left', None), ('scalar', None),
                         ('vran', None), ('vdom', None)]
            for self_lin in (False, True):
                for osort, oarg in sorts:
                    olins = (False, True) if osort.startswith('op_') \
                        else (oarg,)
                    for other_lin in olins:
                        n_inst += 1
                        _one(rep, model, 'Operator', meth, field, self_lin,
                             osort, other_lin, None)
    # the scalar-merging shortcut
    for field in ('R', 'C'):
        for self_lin in (False, True):
            for osort in ('op_right', 'scalar', 'vdom'):
                for other_lin in ((False, True) if osort == 'op_right'
                                  else (None,)):
                    n_inst += 1
                    _one(rep, model, 'OperatorRightScalarMult', '__mul__',
                         field, self_lin, osort, other_lin, 'rsm')
    _fun_rows(rep, model)
    rep.count('dunder_instances', n_inst)
    rep.floor('R1', 'dunder x operand-sort instances', n_inst, 150)
    _merging(rep, model)
    _vector_sum_nesting(rep, model)
    _fun_merging(rep, model)
    # R3e: the expression classes on concrete leaves (model spaces with
    # symbolic entries; leaves that return views of their input included):
    # op(x, out=x) leaves the out-of-place value in x - the aliased arm of
    # R3a evaluated where the leaves are not uninterpreted
    from . import c10b
    c10b.run(rep, model, rule='R3e', kinds=('nonlinear',), floor=20)
    return rep


def _one(rep, model, cls, meth, field, self_lin, osort, other_lin, special):
    cons = '%s.%s' % (cls, meth)
    tag = '%s[%s,self.linear=%s,other=%s%s]' % (
        cons, field, self_lin, osort,
        '' if other_lin is None else ':%s' % other_lin)
    ci = model.get(cls)
    dc, mnode = model.lookup(ci, meth)
    line = getattr(mnode, 'lineno', None)
    rel = dc.rel if dc else OPFILE
    try:
        leaves = eval_dunder(model, cls, meth, field, self_lin, osort,
                             other_lin, special)
    except Undecided as e:
        rep.undecided('R1', tag, str(e), rel, line)
        return
    for res in leaves:
        has_row = res['exp'] is not None
        oc = res['outcome']
        if not has_row:
            if oc == 'value':
                # an un-tabled operand sort produced an operator: only a
                # violation if it is ill-typed; report as diagnostic
                rep.holds('R1', tag, 'no table row; code returns an '
                          'operator (extra case)')
            else:
                rep.holds('R1', tag, 'no table row; %s' % oc)
            continue
        if oc != 'value':
            rep.violation(
                'R1', cons,
                '%s: the table defines this case (%s) but the code path '
                'ends in %s' % (tag, res.get('exp_show'), oc), rel, line)
            continue
        if res['got'] != res['exp']:
            rep.violation(
                'R1', cons,
                '%s: evaluates to %s, the table demands %s'
                % (tag, res.get('got_show'), res.get('exp_show')), rel, line)
            continue
        rep.holds('R1', tag, 'denotation %s' % res.get('exp_show'))
        if 'ip' in res:
            if res['ip'] != res['got']:
                rep.violation(
                    'R3', cons,
                    '%s: in-place evaluation of the returned object leaves '
                    '%s in out, out-of-place gives %s'
                    % (tag, res['ip_show'], res['got_show']), rel, line)
            else:
                rep.holds('R3', tag, 'in-place arm equals out-of-place arm')
        if 'alias' in res:
            if res['alias'] != res['got']:
                rep.violation(
                    'R3a', cons,
                    '%s: evaluated in place with out aliased to the point '
                    'the returned object leaves %s, out-of-place gives %s'
                    % (tag, res['alias_show'], res['got_show']), rel, line)
            else:
                rep.holds('R3a', tag, 'aliased in-place arm equals the '
                          'out-of-place arm')
    # the same rows for a leaf operator with domain == range: the in-place
    # arm with a fresh `out` (no aliased call of the leaf may result: an
    # operator promises nothing for op(v, out=v) unless the caller aliased)
    # and with `out` aliased to the point
    _ENDO[0] = True
    try:
        leaves = eval_dunder(model, cls, meth, field, self_lin, osort,
                             other_lin, special)
    except (Undecided, PyRaise):
        leaves = []
    finally:
        _ENDO[0] = False
    for res in leaves:
        if res['exp'] is None or res['outcome'] != 'value' or \
                res['got'] != res['exp']:
            continue
        for key, rule, what in (('ip', 'R3', 'in place on a fresh out'),
                                ('alias', 'R3a', 'in place with out aliased '
                                 'to the point'),
                                ('shared', 'R3s', 'in place with out another '
                                 'element object over the memory of the '
                                 'point')):
            if key not in res:
                continue
            if res[key] != res['got']:
                rep.violation(
                    rule, cons, '%s, domain = range: evaluated %s the '
                    'returned object leaves %s, out-of-place gives %s'
                    % (tag, what, res[key + '_show'], res['got_show']), rel,
                    line)
            else:
                rep.holds(rule, tag + ':endo:' + key, '%s arm equals the '
                          'out-of-place arm' % what)
        d, rg, lin = res['meta']
        want_lin = expected_meta(meth, osort, self_lin, bool(other_lin))
        probs = []
        if want_lin is not None and lin != want_lin:
            # a linear operator flagged non-linear is only a lost
            # optimisation; a non-linear one flagged linear is wrong
            if lin and not want_lin:
                probs.append('is_linear=True for a non-linear expression')
        if d != res['x_space']:
            probs.append('domain %r, expected %r' % (d, res['x_space']))
        if probs:
            rep.violation('R2', cons, '%s: %s' % (tag, '; '.join(probs)),
                          rel, line)
        else:
            rep.holds('R2', tag, 'linear=%s, domain/range as implied' % lin)


def eval_fun_dunder(model, meth, field, self_lin, osort, other_lin):
    """Same as eval_dunder for a Functional leaf f : X -> field."""
    def body(I):
        c = Case(I, field, self_lin)
        F = FieldV(field)
        f = I.opsym('f', c.X, F, self_lin, functional=True)
        x = c.x

        def fx(t):
            return apply(I, f, t)
        exp = None
        if osort == 'op_right':
            other = I.opsym('B', c.W, c.X, other_lin)
            x = Vec(vs.sym('x'), c.W)
        elif osort == 'scalar':
            other = c.a
        elif osort == 'zero':
            other = 0
        elif osort == 'vdom':
            other = Vec(vs.sym('v'), c.X)
        elif osort == 'vfield':
            other = Vec(vs.sym('v'), c.Z)
        elif osort == 'vdom_left':
            other = Vec(vs.sym('v'), c.X)
        elif osort == 'fun':
            other = I.opsym('g', c.X, F, other_lin, functional=True)
        xv = x
        if meth == '__mul__':
            if osort == 'op_right':
                exp = lambda: fx(apply(I, other, xv))
            elif osort in ('scalar', 'zero', 'vdom'):
                exp = lambda: fx(I.binop(ast.Mult, other, xv))
        elif meth == '__rmul__':
            if osort in ('scalar', 'zero', 'vfield', 'vdom_left'):
                exp = lambda: I.binop(ast.Mult, other, fx(xv))
        elif meth in ('__add__', '__radd__'):
            if osort == 'fun':
                exp = lambda: I.binop(ast.Add, fx(xv), apply(I, other, xv))
            elif osort in ('scalar', 'zero'):
                exp = lambda: I.binop(ast.Add, fx(xv), other)
        elif meth == '__sub__':
            if osort == 'fun':
                exp = lambda: I.binop(ast.Sub, fx(xv), apply(I, other, xv))
            elif osort in ('scalar', 'zero'):
                exp = lambda: I.binop(ast.Sub, fx(xv), other)
        res = {'exp': None, 'got': None, 'outcome': None}

        def norm(v):
            if isinstance(v, Vec):
                return vs.freeze(v.val), vs.show(v.val)
            if isinstance(v, (int,)):
                v = Rat.const(v)
            return v, repr(v)
        try:
            got = I.hooks.call_dunder(I, f, meth, other)
        except PyRaise as e:
            res['outcome'] = 'raises ' + e.name
            got = None
        if got is NI:
            res['outcome'] = OUTCOME_NI
        if exp is not None:
            res['exp'], res['exp_show'] = norm(exp())
        if res['outcome'] is None:
            try:
                r = apply(I, got, x)
            except PyRaise as e:
                res['outcome'] = 'result raises %s when called' % e.name
                return res
            res['got'], res['got_show'] = norm(r)
            res['outcome'] = 'value'
            d, rg, lin = flags(I, got)
            res['meta'] = (d, rg, lin)
            res['x_space'] = x.space
            # vector-valued results (vector * functional): the in-place arm,
            # also with `out` aliased to the point when the spaces agree
            rng = I.getattr_value(got, 'range')
            if isinstance(rng, SpaceV) and isinstance(r, Vec):
                ipv, stale = denote_ip(I, got, x, rng)
                res['ip'], res['ip_show'] = ipv, vs.show(vs.thaw(ipv))
                if rng == x.space:
                    xa = Vec(x.val, x.space)
                    ra = apply(I, got, xa, out=xa)
                    if ra is not None and ra is not xa:
                        raise Undecided('in-place call returned another '
                                        'object')
                    res['alias'] = vs.freeze(xa.val)
                    res['alias_show'] = vs.show(xa.val)
        return res
    return run_leaves(model, body)


def _fun_rows(rep, model):
    fun = model.get('Functional')
    n = 0
    for field in ('R', 'C'):
        for meth, sorts in (
                ('__mul__', ['op_right', 'scalar', 'zero', 'vdom']),
                ('__rmul__', ['scalar', 'zero', 'vfield', 'vdom_left']),
                ('__add__', ['fun', 'scalar', 'zero']),
                ('__radd__', ['scalar']),
                ('__sub__', ['fun', 'scalar'])):
            dc, mnode = model.lookup(fun, meth)
            if mnode is None:
                raise AnalysisError('anchor vanished: Functional.%s' % meth)
            if isinstance(mnode, ast.Name):
                dc, mnode = model.lookup(fun, mnode.id)
            for self_lin in (False, True):
                for osort in sorts:
                    for other_lin in ((False, True) if osort in (
                            'op_right', 'fun') else (None,)):
                        n += 1
                        cons = 'Functional.%s' % meth
                        tag = '%s[%s,self.linear=%s,other=%s%s]' % (
                            cons, field, self_lin, osort,
                            '' if other_lin is None else ':%s' % other_lin)
                        try:
                            leaves = eval_fun_dunder(model, meth, field,
                                                     self_lin, osort,
                                                     other_lin)
                        except Undecided as e:
                            rep.undecided('R1', tag, str(e), dc.rel,
                                          mnode.lineno)
                            continue
                        for res in leaves:
                            if res['exp'] is None:
                                rep.holds('R1', tag, 'no table row; %s'
                                          % res['outcome'])
                            elif res['outcome'] != 'value':
                                rep.violation(
                                    'R1', cons, '%s: the table defines this '
                                    'case (%s) but the code path ends in %s'
                                    % (tag, res.get('exp_show'),
                                       res['outcome']), dc.rel, mnode.lineno)
                            elif res['got'] != res['exp']:
                                rep.violation(
                                    'R1', cons, '%s: evaluates to %s, the '
                                    'table demands %s'
                                    % (tag, res['got_show'],
                                       res['exp_show']), dc.rel,
                                    mnode.lineno)
                            else:
                                rep.holds('R1', tag, 'denotation %s'
                                          % res['exp_show'])
                            # linearity flag of the result (R2): flagged
                            # linear only if the expression is linear
                            if res['outcome'] == 'value' and 'meta' in res:
                                if meth == '__mul__' and osort == 'op_right':
                                    truly = self_lin and bool(other_lin)
                                elif meth in ('__mul__', '__rmul__'):
                                    # 0 * f and f * 0 are the zero functional
                                    truly = self_lin or osort == 'zero'
                                elif osort == 'fun':
                                    truly = self_lin and bool(other_lin)
                                else:
                                    truly = self_lin and osort == 'zero'
                                if res['meta'][2] and not truly:
                                    rep.violation(
                                        'R2', cons, '%s: is_linear=True for '
                                        'a non-linear expression' % tag,
                                        dc.rel, mnode.lineno)
                                else:
                                    rep.holds('R2', tag + ':flag',
                                              'linear=%s' % res['meta'][2])
                            for key, rule, what in (
                                    ('ip', 'R3', 'in place'),
                                    ('alias', 'R3a', 'in place with out '
                                     'aliased to the point')):
                                if key not in res or res['outcome'] != \
                                        'value':
                                    continue
                                if res[key] != res['got']:
                                    rep.violation(
                                        rule, cons, '%s: evaluated %s the '
                                        'returned object leaves %s, '
                                        'out-of-place gives %s'
                                        % (tag, what, res[key + '_show'],
                                           res['got_show']), dc.rel,
                                        mnode.lineno)
                                else:
                                    rep.holds(rule, tag + ':' + key,
                                              '%s arm equals the '
                                              'out-of-place arm' % what)
    rep.count('functional_dunder_instances', n)


def _fun_merging(rep, model):
    """The same for the functional expression classes: every (outer, inner)
    nesting of scalar sums / scalar multiples / sums / translations of an
    uninterpreted functional denotes outer(inner(f))."""
    FUN = 'odl/solvers/functional/functional.py'
    inners = ['FunctionalScalarSum', 'FunctionalLeftScalarMult',
              'FunctionalRightScalarMult', 'FunctionalSum',
              'FunctionalTranslation']
    outers = ['FunctionalScalarSum', 'FunctionalLeftScalarMult',
              'FunctionalRightScalarMult', 'FunctionalTranslation']
    n = 0
    for cls in outers:
        ci = model.get(cls)
        if ci is None:
            raise AnalysisError('anchor vanished: %s' % cls)
        line = ci.methods['__init__'].lineno
        for inner_cls in inners:
            for lin in (False, True):
                n += 1
                tag = '%s.__init__[%s of %s,linear=%s]' % (
                    cls, 'merge' if inner_cls == cls else 'outer',
                    inner_cls, lin)

                def body(I):
                    c = Case(I, 'R', lin)
                    F = FieldV('R')
                    f = I.opsym('f', c.X, F, lin, functional=True)
                    s1, s2 = Rat.var('s'), Rat.var('t')
                    y1 = Vec(vs.sym('y1'), c.X)
                    y2 = Vec(vs.sym('y2'), c.X)

                    def build(kind, inner, par, vec):
                        if kind == 'FunctionalSum':
                            g = I.opsym('g', c.X, F, lin, functional=True)
                            return I.instantiate(model.get(kind),
                                                 [inner, g], {}), (
                                lambda sem: lambda v: I.binop(
                                    ast.Add, sem(v), apply(I, g, v)))
                        if kind == 'FunctionalTranslation':
                            return I.instantiate(model.get(kind),
                                                 [inner, vec], {}), (
                                lambda sem: lambda v: sem(I.binop(
                                    ast.Sub, v, vec)))
                        obj = I.instantiate(model.get(kind), [inner, par],
                                            {})
                        if kind == 'FunctionalScalarSum':
                            return obj, (lambda sem: lambda v: I.binop(
                                ast.Add, sem(v), par))
                        if kind == 'FunctionalLeftScalarMult':
                            return obj, (lambda sem: lambda v: I.binop(
                                ast.Mult, par, sem(v)))
                        return obj, (lambda sem: lambda v: sem(I.binop(
                            ast.Mult, par, v)))
                    base = lambda v: apply(I, f, v)
                    inner, w1 = build(inner_cls, f, s1, y1)
                    outer, w2 = build(cls, inner, s2, y2)
                    got = apply(I, outer, c.x)
                    want = w2(w1(base))(c.x)
                    nf = lambda v: (vs.freeze(v.val), vs.show(v.val)) \
                        if isinstance(v, Vec) else (to_rat(v), repr(v))
                    return nf(got) + nf(want)
                try:
                    for got, gs, want, ws in run_leaves(model, body):
                        same = (got == want) if not hasattr(
                            got, 'is_zero') else (got - want).is_zero()
                        if not same:
                            rep.violation(
                                'R1', cls + '.__init__',
                                '%s: the nested functional evaluates to %s, '
                                'expected %s' % (tag, gs, ws), FUN, line)
                        else:
                            rep.holds('R1', tag, 'denotes outer(inner(f))')
                except Undecided as e:
                    rep.undecided('R1', tag, str(e), FUN, line)
                except PyRaise as e:
                    rep.violation('R1', cls + '.__init__', '%s: raises %s'
                                  % (tag, e.name), FUN, line)
    rep.floor('R1', 'nested functional expressions', n, 40)


def _vector_sum_nesting(rep, model):
    """Nested affine shifts `(A + v) + w`, `w + (A + v)`, `(A + v) - w`:
    the expression denotes A(x) + v +- w and building it leaves the caller's
    vectors untouched (a constructor that folds the vectors must not
    accumulate into the object it was handed)."""
    ci = model.get('OperatorVectorSum')
    if ci is None:
        raise AnalysisError('anchor vanished: OperatorVectorSum')
    line = ci.methods['__init__'].lineno
    for form in ('(A + v) + w', 'w + (A + v)', '(A + v) - w'):
        for field in ('R', 'C'):
            for lin in (False, True):
                tag = 'OperatorVectorSum[%s,%s,linear=%s]' % (form, field,
                                                              lin)

                def body(I):
                    c = Case(I, field, lin)
                    A = I.opsym('A', c.X, c.Y, lin)
                    v = Vec(vs.sym('v'), c.Y)
                    w = Vec(vs.sym('w'), c.Y)
                    inner = I.binop(ast.Add, A, v)
                    if form == '(A + v) + w':
                        outer = I.binop(ast.Add, inner, w)
                    elif form == 'w + (A + v)':
                        outer = I.binop(ast.Add, w, inner)
                    else:
                        outer = I.binop(ast.Sub, inner, w)
                    got = apply(I, outer, c.x)
                    want = I.binop(ast.Add, apply(I, A, c.x), Vec(
                        vs.sym('v'), c.Y))
                    want = I.binop(ast.Sub if form.endswith('- w')
                                   else ast.Add, want, Vec(vs.sym('w'), c.Y))
                    # a second expression built with the same w afterwards
                    Bo = I.opsym('B', c.X, c.Y, lin)
                    got2 = apply(I, I.binop(ast.Add, Bo, w), c.x)
                    want2 = I.binop(ast.Add, apply(I, Bo, c.x), Vec(
                        vs.sym('w'), c.Y))
                    return (vs.freeze(got.val) == vs.freeze(want.val),
                            vs.show(got.val), vs.show(want.val),
                            vs.freeze(w.val) == vs.freeze(vs.sym('w')),
                            vs.freeze(v.val) == vs.freeze(vs.sym('v')),
                            vs.freeze(got2.val) == vs.freeze(want2.val),
                            vs.show(w.val))
                try:
                    for ok, gs, ws, wok, vok, ok2, wshow in run_leaves(
                            model, body):
                        probs = []
                        if not ok:
                            probs.append('evaluates to %s, expected %s' % (
                                gs, ws))
                        if not wok:
                            probs.append('the caller\'s vector w now holds '
                                         '%s' % wshow)
                        if not vok:
                            probs.append('the caller\'s vector v is '
                                         'modified')
                        if not ok2:
                            probs.append('a later expression B + w '
                                         'evaluates with another w')
                        if probs:
                            rep.violation('R1', 'OperatorVectorSum.__init__',
                                          '%s: %s' % (tag, '; '.join(probs)),
                                          ci.rel, line)
                        else:
                            rep.holds('R1', tag, 'A(x) + v +- w, operands '
                                      'untouched')
                except Undecided as e:
                    rep.undecided('R1', tag, str(e), ci.rel, line)
                except PyRaise as e:
                    rep.violation('R1', 'OperatorVectorSum.__init__',
                                  '%s: raises %s' % (tag, e.name), ci.rel,
                                  line)


def _merging(rep, model):
    """Constructors of the scalar-multiple classes look at the class of their
    operand (scalar-merging shortcuts): every (outer, inner) combination of
    expression classes must still denote outer(inner(x))."""
    inners = ['OperatorLeftScalarMult', 'OperatorRightScalarMult',
              'OperatorSum', 'OperatorComp']
    for cls in ('OperatorLeftScalarMult', 'OperatorRightScalarMult'):
        for inner_cls in inners:
            for field in ('R', 'C'):
                for lin in (False, True):
                    tag = '%s.__init__[%s of %s,%s,linear=%s]' % (
                        cls, 'merge' if inner_cls == cls else 'outer',
                        inner_cls, field, lin)
                    ci = model.get(cls)
                    line = ci.methods['__init__'].lineno

                    def body(I):
                        c = Case(I, field, lin)
                        s1, s2 = Rat.var('s'), Rat.var('t')
                        A = I.opsym('A', c.X, c.Y, lin)
                        if inner_cls == 'OperatorSum':
                            Bo = I.opsym('B', c.X, c.Y, lin)
                            inner = I.instantiate(model.get(inner_cls),
                                                  [A, Bo], {})
                            isem = lambda v: I.binop(
                                ast.Add, apply(I, A, v), apply(I, Bo, v))
                        elif inner_cls == 'OperatorComp':
                            Bo = I.opsym('B', c.X, c.X, lin)
                            inner = I.instantiate(model.get(inner_cls),
                                                  [A, Bo], {})
                            isem = lambda v: apply(I, A, apply(I, Bo, v))
                        elif inner_cls == 'OperatorLeftScalarMult':
                            inner = I.instantiate(model.get(inner_cls),
                                                  [A, s1], {})
                            isem = lambda v: I.binop(ast.Mult, s1,
                                                     apply(I, A, v))
                        else:
                            inner = I.instantiate(model.get(inner_cls),
                                                  [A, s1], {})
                            isem = lambda v: apply(I, A, I.binop(
                                ast.Mult, s1, v))
                        outer = I.instantiate(ci, [inner, s2], {})
                        got = apply(I, outer, c.x)
                        if cls == 'OperatorLeftScalarMult':
                            want = I.binop(ast.Mult, s2, isem(c.x))
                        else:
                            want = isem(I.binop(ast.Mult, s2, c.x))
                        return (vs.freeze(got.val), vs.freeze(want.val),
                                vs.show(got.val), vs.show(want.val))
                    try:
                        for got, want, gs, ws in run_leaves(model, body):
                            if got != want:
                                rep.violation(
                                    'R1', cls + '.__init__',
                                    '%s: the nested expression evaluates to '
                                    '%s, expected %s' % (tag, gs, ws),
                                    ci.rel, line)
                            else:
                                rep.holds('R1', tag, 'denotes outer(inner('
                                          'x))')
                    except Undecided as e:
                        rep.undecided('R1', tag, str(e), ci.rel, line)
                    except PyRaise as e:
                        rep.violation('R1', cls + '.__init__',
                                      '%s: raises %s' % (tag, e.name),
                                      ci.rel, line)
