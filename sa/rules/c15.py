"""C15 -- sampling and interpolation reproduce the function at the nodes and
between them.  See DESIGN.md section C15.

The interpolator classes are *evaluated* by the symbolic interpreter on a
grid with symbolic nodes ``c0 < c1 < c2 < c3`` per axis and symbolic node
values; the query point of an axis is parametrised by its ordering case
relative to the nodes (``x = c_k + y (c_{k+1} - c_k)`` with ``y`` in an open
interval between two consecutive critical values, or on a critical value).
The code touches the query only through ``searchsorted`` (answered from the
case), comparisons of the normalised distance with constants (decided for the
whole interval: the root of the compared affine function must not lie inside
it) and arithmetic, so one evaluation per case is a proof for every point of
the case.  The result is compared, as a polynomial identity in the node
values, with the closest-node value / the multilinear blend.
"""
from __future__ import annotations

import ast
import itertools
from fractions import Fraction as Fr

from ..core import Report, Undecided, AnalysisError
from ..srcmodel import Model
from ..forks import explore
from ..ratfun import Rat
from ..symex import (Interp, Hooks, Inst, Func, Builtin, Opaque, Rec, SArr,
                     NPV, PyRaise, is_scalar, to_rat)
from ..npmodel import NumpyHooks

DU = 'odl/discr/discr_utils.py'
NN = 4                                   # nodes per axis
WITNESS_NODES = [Fr(0), Fr(1), Fr(3), Fr(7)]        # non-uniform
DT = Opaque('dtype')


class ND(object):
    """n-d array of symbolic entries: data[(i, j, ...)]."""

    def __init__(self, shape, data, layout='C'):
        self.shape = tuple(shape)
        self.data = dict(data)
        # memory layout of the value array: 'C' or 'F' (what flattening in
        # memory order - ravel(order='K' / 'A'), .flat of a view - sees)
        self.layout = layout

    def flat(self, order='C'):
        if order in ('K', 'A'):
            order = self.layout
        idxs = list(itertools.product(*[range(n) for n in self.shape]))
        if order == 'F':
            idxs.sort(key=lambda t: tuple(reversed(t)))
        return [self.data[i] for i in idxs]

    def get(self, idx):
        for i, n in zip(idx, self.shape):
            if not isinstance(i, int):
                raise Undecided('symbolic index %r' % (i,))
            if not -n <= i < n:
                raise PyRaise('IndexError')
        idx = tuple(i % n for i, n in zip(idx, self.shape))
        return self.data[idx]


class SplitCase(Exception):
    """A comparison changes sign inside the case: split it at the root."""

    def __init__(self, ax, root):
        Exception.__init__(self, 'split axis %d at %s' % (ax, root))
        self.ax, self.root = ax, root


class Case(object):
    """Ordering case of one query coordinate.

    kind 'node'   : x = c_k                      (k = 0..NN-1)
    kind 'cell'   : x = c_k + y (c_{k+1}-c_k), y in the open interval (lo, hi)
                    or y == lo == hi (a single value, e.g. the tie 1/2)
    kind 'below'  : x = c_0 + y (c_1 - c_0), y in (lo, hi), hi <= 0
    kind 'above'  : x = c_{NN-2} + y (c_{NN-1} - c_{NN-2}), y in (lo, hi),
                    lo >= 1
    """

    def __init__(self, kind, k, lo=None, hi=None, name=''):
        self.kind, self.k, self.lo, self.hi = kind, k, lo, hi
        self.name = name

    def __repr__(self):
        return self.name

    def split(self, root):
        mk = lambda lo, hi: Case(self.kind, self.k, lo, hi, '%s%d:%s' % (
            self.kind, self.k, '(%s,%s)' % (lo, hi) if lo != hi
            else '{%s}' % lo))
        return [mk(self.lo, root), mk(root, root), mk(root, self.hi)]


def cases(outside=True):
    out = []
    for k in range(NN):
        out.append(Case('node', k, name='node%d' % k))
    for k in range(NN - 1):
        out.append(Case('cell', k, Fr(0), Fr(1, 2), 'cell%d:(0,1/2)' % k))
        out.append(Case('cell', k, Fr(1, 2), Fr(1, 2), 'cell%d:tie' % k))
        out.append(Case('cell', k, Fr(1, 2), Fr(1), 'cell%d:(1/2,1)' % k))
    if outside:
        out.append(Case('below', 0, Fr(-1), Fr(0), 'below:(-1,0)'))
        out.append(Case('above', NN - 2, Fr(1), Fr(2), 'above:(1,2)'))
    return out


class Axis(object):
    def __init__(self, ax, case, n=NN):
        self.ax = ax
        self.case = case
        self.n = n
        self.c = [Rat.var('c%d_%d' % (ax, i)) for i in range(n)]
        self.cvec = SArr(list(self.c))
        self.yname = 'y%d' % ax
        c = self.c
        if case.kind == 'node':
            self.y = None
            self.x = c[case.k]
        else:
            if case.lo == case.hi:
                self.y = Rat.const(case.lo)
            else:
                self.y = Rat.var(self.yname)
            self.x = c[case.k] + self.y * (c[case.k + 1] - c[case.k])
        self.xarr = SArr([self.x])

    def searchsorted(self):
        """Left insertion index of x in the strictly increasing nodes."""
        cs = self.case
        if cs.kind == 'node':
            return cs.k
        if cs.kind == 'cell':
            return cs.k + 1
        if cs.kind == 'below':
            return 0
        return self.n

    # --- what the property demands ----------------------------------------
    def nearest_weights(self):
        cs = self.case
        if cs.kind == 'node':
            return {cs.k: Rat.const(1)}
        if cs.kind == 'cell':
            if cs.hi <= Fr(1, 2) and cs.lo < Fr(1, 2):
                return {cs.k: Rat.const(1)}
            if cs.lo < Fr(1, 2):
                raise Undecided('case %s straddles the tie' % cs)
            return {cs.k + 1: Rat.const(1)}     # tie goes right
        if cs.kind == 'below':
            return {0: Rat.const(1)}
        return {NN - 1: Rat.const(1)}

    def linear_weights(self):
        cs = self.case
        if cs.kind == 'node':
            return {cs.k: Rat.const(1)}
        if cs.kind == 'cell':
            return {cs.k: 1 - self.y, cs.k + 1: self.y}
        if cs.kind == 'below':
            # zero at the (virtual) next node outside
            return {0: 1 + self.y}
        return {NN - 1: 2 - self.y}


class IH(NumpyHooks):
    def __init__(self, axes):
        NumpyHooks.__init__(self)
        self.axes = axes
        self.decided = []

    def on_name(self, interp, name):
        if name == 'product':
            return Builtin('product', lambda *a: list(itertools.product(
                *[x.items if isinstance(x, SArr) else x for x in a])))
        if name in ('out_shape_from_meshgrid', 'out_shape_from_array'):
            return Builtin(name, lambda x: (1,))
        if name == 'is_valid_input_meshgrid':
            return Builtin(name, lambda x, n: isinstance(x, tuple) and
                           len(x) == n)
        if name == 'warn':
            return Builtin('warn', lambda *a, **k: None)
        if name == 'object':
            return Opaque('object')
        return NotImplemented

    def on_getattr(self, interp, obj, name):
        if isinstance(obj, ND):
            if name == 'ndim':
                return len(obj.shape)
            if name == 'shape':
                return obj.shape
            if name == 'dtype':
                return DT
            if name in ('ravel', 'flatten'):
                return Builtin(name, lambda order='C': SArr(obj.flat(order)))
            if name == 'flags':
                c = obj.layout == 'C' or len(obj.shape) < 2
                f = obj.layout == 'F' or len(obj.shape) < 2
                return Rec('flags', c_contiguous=c, f_contiguous=f,
                           contiguous=c, forc=c or f)
            if name == 'size':
                n = 1
                for k in obj.shape:
                    n *= k
                return n
        if isinstance(obj, SArr):
            if name == 'dtype':
                return DT
            if name == 'astype':
                return Builtin('astype', lambda *a, **k: obj)
            if name == 'size':
                return len(obj.items)
            if name == 'ndim':
                return 1
            if name == 'shape':
                return (len(obj.items),)
            if name == 'item':
                return Builtin('item', lambda: obj.items[0])
        if obj is NPV:
            if name in ('result_type', 'promote_types', 'dtype'):
                return Builtin('np.' + name, lambda *a, **k: DT)
            if name == 'issubdtype':
                # the value-level model is dtype-agnostic (dtypes are the
                # business of R5): symbolic values are numeric and inexact
                return Builtin('np.issubdtype', lambda *a: True)
            if name in ('float16', 'float32', 'float64', 'complex64',
                        'complex128', 'inexact', 'floating', 'number',
                        'integer', 'complexfloating'):
                return Opaque('np.' + name)
            if name == 'searchsorted':
                def ss(cvec, xi, **k):
                    for a in self.axes:
                        if cvec is a.cvec:
                            if xi is not a.xarr:
                                raise Undecided('searchsorted of a derived '
                                                'query array')
                            if k.get('side', 'left') != 'left':
                                raise Undecided('searchsorted side')
                            return SArr([a.searchsorted()])
                    raise Undecided('searchsorted on an unknown vector')
                return Builtin('np.searchsorted', ss)
            if name == 'where':
                def where(cond, *a):
                    m = cond.items
                    if not a:
                        return (SArr([i for i, b in enumerate(m) if b]),)
                    x, y = a
                    xs = x.items if isinstance(x, SArr) else [x] * len(m)
                    ys = y.items if isinstance(y, SArr) else [y] * len(m)
                    return SArr([p if b else q
                                 for b, p, q in zip(m, xs, ys)])
                return Builtin('np.where', where)
            if name == 'ravel':
                return Builtin('np.ravel', lambda v, order='C': SArr(
                    v.flat(order)) if isinstance(v, ND) else v)
            if name == 'ravel_multi_index':
                def rmi(idx, shape, mode='raise', order='C'):
                    idx = [i.items if isinstance(i, SArr) else [i]
                           for i in idx]
                    shape = [int(to_rat(n).constant()) for n in shape]
                    out = []
                    for tup in zip(*idx):
                        if not all(isinstance(t, int) for t in tup):
                            raise Undecided('symbolic multi index')
                        if any(not 0 <= t < n for t, n in zip(tup, shape)):
                            raise PyRaise('ValueError')
                        dims = list(zip(tup, shape))
                        if order == 'F':
                            dims.reverse()
                        k = 0
                        for t, n in dims:
                            k = k * n + t
                        out.append(k)
                    return SArr(out)
                return Builtin('np.ravel_multi_index', rmi)
            if name == 'take':
                def take(a, ind, axis=None, out=None, mode='raise'):
                    if isinstance(a, ND):
                        a = SArr(a.flat('C'))
                    if axis is not None or not isinstance(a, SArr):
                        raise Undecided('np.take with axis')
                    ii = ind.items if isinstance(ind, SArr) else [ind]
                    if any(not isinstance(i, int) or not -len(a.items) <= i <
                           len(a.items) for i in ii):
                        raise PyRaise('IndexError')
                    res = [a.items[i] for i in ii]
                    if out is not None:
                        out.items[:] = res
                        return out
                    return SArr(res) if isinstance(ind, SArr) else res[0]
                return Builtin('np.take', take)
            if name in ('asarray', 'array'):
                def asarr(v, *a, **k):
                    if isinstance(v, (list, tuple)) and v and all(
                            is_scalar(x) for x in v):
                        return SArr(list(v))
                    if isinstance(v, SArr) and name == 'array' and \
                            k.get('copy', True):
                        return SArr(list(v.items))
                    return v
                return Builtin('np.' + name, asarr)
        return NumpyHooks.on_getattr(self, interp, obj, name)

    def on_subscript(self, interp, obj, idx):
        if isinstance(obj, ND):
            if not isinstance(idx, tuple):
                idx = (idx,)
            if len(idx) != len(obj.shape) or not all(
                    isinstance(i, SArr) for i in idx):
                raise Undecided('index %r of the value array' % (idx,))
            n = len(idx[0].items)
            return SArr([obj.get([i.items[j] for i in idx])
                         for j in range(n)])
        if isinstance(obj, SArr) and isinstance(idx, tuple) and \
                len(idx) == 1:
            i = idx[0]
            if isinstance(i, slice):
                return SArr(obj.items[i])
            if isinstance(i, SArr):
                return NotImplemented if False else interp.subscript_value(
                    obj, i) if hasattr(interp, 'subscript_value') else \
                    SArr([obj.items[j] for j in i.items])
        return NumpyHooks.on_subscript(self, interp, obj, idx)

    def on_decide(self, interp, cond, node):
        """Comparison of an affine function of y with a constant: decided for
        the whole case interval, or Undecided when its root lies inside."""
        if cond.rat is None or not cond.key.startswith(
                ('Lt:', 'LtE:', 'Gt:', 'GtE:', 'eq0:')):
            return NotImplemented
        d = cond.rat
        # node symbols that survive (a different cell was used to normalise)
        # are fixed at a non-uniform witness grid
        sub = {}
        for a in self.axes:
            for i, c in enumerate(a.c):
                sub['c%d_%d' % (a.ax, i)] = Rat.const(WITNESS_NODES[i])
        d = d.subs(sub)
        ys = [v for v in d.vars()]
        if not ys:
            c = d.constant()
        else:
            if len(ys) != 1:
                raise Undecided('condition on several coordinates: %r' % d)
            yv = ys[0]
            ax = [a for a in self.axes if a.yname == yv]
            if not ax:
                raise Undecided('condition on %r' % (yv,))
            cs = ax[0].case
            # sign at the midpoint, and no sign change inside (lo, hi)
            mid = (cs.lo + cs.hi) / 2
            num = d.n
            den = d.d
            for p in (num, den):
                d1 = Rat(p).diff(yv)
                if yv in d1.vars():
                    raise Undecided('non-affine condition %r' % d)
                a1 = d1.constant()
                a0 = Rat(p).subs({yv: Rat.const(0)}).constant()
                if a1 != 0:
                    root = -a0 / a1
                    if cs.lo < root < cs.hi:
                        raise SplitCase(ax[0].ax, root)
            c = d.subs({yv: Rat.const(mid)}).constant()
        self.decided.append((cond.key, c))
        k = cond.key.split(':')[0]
        return {'Lt': c < 0, 'LtE': c <= 0, 'Gt': c > 0, 'GtE': c >= 0,
                'eq0': c == 0}[k]


class IInterp(Interp):
    def assign(self, t, v, scope, func):
        if isinstance(t, ast.Subscript) and not isinstance(t.slice,
                                                           ast.Slice):
            obj = self.ev(t.value, scope, func)
            if isinstance(obj, SArr):
                idx = self.ev(t.slice, scope, func)
                if isinstance(idx, tuple) and len(idx) == 1 and isinstance(
                        idx[0], SArr):
                    idx = idx[0]
                    pos = [k for k, m in enumerate(idx.items) if m] if (
                        idx.items and all(isinstance(i, bool)
                                          for i in idx.items)) \
                        else list(idx.items)
                    vals = v.items if isinstance(v, SArr) else [v] * len(pos)
                    for k, val in zip(pos, vals):
                        obj.items[k] = val
                    return
        return Interp.assign(self, t, v, scope, func)

    def cmp1(self, op, l, r, node):
        if isinstance(l, SArr) and is_scalar(r) and isinstance(
                op, (ast.Lt, ast.LtE, ast.Gt, ast.GtE)):
            return SArr([self.truth_value(Interp.cmp1(self, op, x, r, node),
                                          node) for x in l.items])
        return Interp.cmp1(self, op, l, r, node)


def values_nd(ndim, layout='C'):
    data = {}
    for idx in itertools.product(range(NN), repeat=ndim):
        data[idx] = Rat.var('v' + ''.join(str(i) for i in idx))
    return ND((NN,) * ndim, data, layout)


def expected(axes, schemes, vals):
    tot = Rat.const(0)
    ws = [a.nearest_weights() if s == 'nearest' else a.linear_weights()
          for a, s in zip(axes, schemes)]
    for combo in itertools.product(*[list(w.items()) for w in ws]):
        idx = tuple(i for i, _ in combo)
        w = Rat.const(1)
        for _, wi in combo:
            w = w * wi
        tot = tot + w * vals.get(idx)
    return tot


def run_split(model, how, schemes, case_tuple, with_out=False, vals=None,
              depth=0):
    """run() on the case, splitting it where a comparison of the code
    changes sign inside; yields (case_tuple, result | PyRaise)."""
    try:
        yield case_tuple, run(model, how, schemes, case_tuple, with_out,
                              vals)
    except PyRaise as e:
        yield case_tuple, e
    except SplitCase as sp:
        if depth > 6:
            raise Undecided('case split too deep')
        for sub in case_tuple[sp.ax].split(sp.root):
            ct = tuple(sub if i == sp.ax else c
                       for i, c in enumerate(case_tuple))
            for r in run_split(model, how, schemes, ct, with_out, vals,
                               depth + 1):
                yield r


def run(model, how, schemes, case_tuple, with_out=False, vals=None,
        nodes=None):
    """Evaluate an interpolator on the case.  ``how`` is a class name
    (instantiated directly, meshgrid input) or a public factory name.
    Returns (result entry, axes, values, decided conditions)."""
    ndim = len(case_tuple)
    axes = [Axis(i, c, nodes[i] if nodes else NN)
            for i, c in enumerate(case_tuple)]
    if vals is None and nodes:
        vals = ND(tuple(nodes), {
            idx: Rat.var('v' + ''.join(str(i) for i in idx))
            for idx in itertools.product(*[range(n) for n in nodes])})
    if vals is None:
        vals = values_nd(ndim)
    hooks = IH(axes)

    def once(assume):
        I = IInterp(model, assume, hooks)
        cv = [a.cvec for a in axes]
        x = tuple(a.xarr for a in axes)
        kw = {}
        if with_out:
            kw['out'] = SArr([Rat.var('garbage')])
        if how.startswith('_'):
            args = [cv, vals, 'meshgrid']
            if how == '_PerAxisInterpolator':
                args.append(list(schemes))
            inst = I.instantiate(model.get(how), args, {})
            return I.call(I.getattr_value(inst, '__call__'), [x], kw)
        fn = model.ctx.func(DU, how)
        args = [vals, cv]
        if how == 'per_axis_interpolator':
            args.append(schemes[0] if len(set(schemes)) == 1 and
                        with_out else list(schemes))
        f = I.call_func(Func(fn, I.env_of(DU), None), args, {})
        return I.call(f, [x], kw)
    leaves = explore(once, limit=8)
    if len(leaves) != 1:
        raise Undecided('%d paths' % len(leaves))
    out = leaves[0][1]
    if not isinstance(out, SArr) or len(out.items) != 1:
        raise Undecided('result %r' % (out,))
    return out.items[0], axes, vals, hooks.decided


# ---------------------------------------------------------------------------
# R5: dtype interpretation -- arrays are abstracted to their NumPy dtype;
# promotion and casting rules are NumPy's own tables (np.result_type,
# np.can_cast)
# ---------------------------------------------------------------------------
import numpy as _rnp


class KArr(object):
    def __init__(self, dt, frac=False):
        self.dt = _rnp.dtype(dt)
        # may hold non-integral information derived from the query points
        # (distances, interpolation weights)
        self.frac = bool(frac) and self.dt.kind in 'fc'

    def __repr__(self):
        return 'KArr(%s)' % self.dt

    def __len__(self):
        return NN


class KDt(object):
    model_eq = True

    def __init__(self, dt):
        self.dt = _rnp.dtype(dt)

    def __eq__(self, o):
        return isinstance(o, KDt) and o.dt == self.dt

    def __ne__(self, o):
        return not self == o

    def __hash__(self):
        return hash(self.dt)

    def __repr__(self):
        return 'dtype(%s)' % self.dt


def np_operand(v):
    """What np.result_type should see for an operand."""
    if isinstance(v, KArr):
        return v.dt
    if isinstance(v, bool):
        return v
    if isinstance(v, int):
        return 1
    if isinstance(v, (float, Fr, Rat)):
        return 1.0
    if isinstance(v, complex):
        return 1j
    raise Undecided('dtype of %r' % (v,))


def as_np_dt(d):
    if isinstance(d, KDt):
        return d.dt
    if isinstance(d, Builtin) and d.name in ('float', 'int', 'complex',
                                             'bool'):
        return _rnp.dtype({'float': float, 'int': int, 'complex': complex,
                           'bool': bool}[d.name])
    if isinstance(d, Opaque) and d.desc.startswith('np.'):
        try:
            return _rnp.dtype(getattr(_rnp, d.desc[3:]))
        except (AttributeError, TypeError):
            pass
    if isinstance(d, str):
        return _rnp.dtype(d)
    raise Undecided('dtype %r' % (d,))


class KH(Hooks):
    def __init__(self, vdt):
        self.vdt = _rnp.dtype(vdt)
        self.events = []
        self.search_dt = []
        self.truncations = []

    def on_name(self, interp, name):
        if name == 'product':
            return Builtin('product', lambda *a: list(itertools.product(*a)))
        if name in ('out_shape_from_meshgrid', 'out_shape_from_array'):
            return Builtin(name, lambda x: (1,))
        if name == 'warn':
            return Builtin('warn', lambda *a, **k: None)
        if name == 'float':
            return Builtin('float', lambda v=0: float(v))
        if name == 'object':
            return Opaque('object')
        return NotImplemented

    def on_getattr(self, interp, obj, name):
        if isinstance(obj, KArr):
            if name == 'dtype':
                return KDt(obj.dt)
            if name == 'ndim':
                return 1
            if name == 'shape':
                return (NN,)
            if name == 'size':
                return NN
            if name in ('ravel', 'flatten'):
                return Builtin(name, lambda *a, **k: KArr(obj.dt, obj.frac))
            if name == 'astype':
                def astype(dt, casting='unsafe', **k):
                    d2 = as_np_dt(dt)
                    if not _rnp.can_cast(obj.dt, d2, casting):
                        raise PyRaise('TypeError')
                    if obj.frac and d2.kind in 'biu':
                        self.truncations.append('astype(%s) of %s data'
                                                % (d2, obj.dt))
                    return KArr(d2, obj.frac)
                return Builtin('astype', astype)
        if obj is NPV:
            if name in ('float16', 'float32', 'float64', 'complex64',
                        'complex128', 'int8', 'int16', 'int32', 'int64',
                        'uint8', 'floating', 'inexact', 'integer', 'number',
                        'complexfloating'):
                return Opaque('np.' + name)
            if name in ('asarray', 'array'):
                def asarr(v, *a, **k):
                    dt = k.get('dtype')
                    if dt is None and a:
                        dt = a[0]
                    if dt is not None and not (isinstance(dt, Opaque) and
                                               dt.desc == 'object'):
                        fr = isinstance(v, KArr) and v.frac
                        if fr and as_np_dt(dt).kind in 'biu':
                            self.truncations.append(
                                'np.%s(..., dtype=%s) of %s data'
                                % (name, as_np_dt(dt), v.dt))
                        return KArr(as_np_dt(dt), fr)
                    if isinstance(v, (list, tuple)) and v and not \
                            isinstance(v[0], KArr):
                        return KArr(_rnp.result_type(
                            *[np_operand(x) for x in v]))
                    return v
                return Builtin('np.' + name, asarr)
            if name == 'searchsorted':
                def ss(cvec, xi, **k):
                    self.search_dt.append(xi.dt if isinstance(xi, KArr)
                                          else None)
                    return KArr('intp')
                return Builtin('np.searchsorted', ss)
            if name == 'where':
                def where(cond, *a):
                    if not a:
                        return (KArr('intp'),)
                    return KArr(_rnp.result_type(*[np_operand(x)
                                                   for x in a]),
                                any(getattr(x, 'frac', False) for x in a))
                return Builtin('np.where', where)
            if name == 'copy':
                return Builtin('np.copy', lambda a, **k: KArr(a.dt, a.frac))
            if name == 'ravel':
                return Builtin('np.ravel', lambda a, **k: KArr(a.dt, a.frac))
            if name == 'ravel_multi_index':
                return Builtin('np.ravel_multi_index',
                               lambda *a, **k: KArr('intp'))
            if name == 'take':
                def take(a, ind, axis=None, out=None, mode='raise'):
                    if out is not None:
                        if not _rnp.can_cast(a.dt, out.dt, 'same_kind'):
                            raise PyRaise('TypeError')
                        return out
                    return KArr(a.dt, a.frac)
                return Builtin('np.take', take)
            if name in ('zeros', 'empty', 'ones'):
                def mk(shape, *a, **k):
                    dt = k.get('dtype', a[0] if a else None)
                    return KArr('float64' if dt is None else as_np_dt(dt))
                return Builtin('np.' + name, mk)
            if name in ('result_type', 'promote_types'):
                def rt(*a):
                    ops = []
                    for x in a:
                        try:
                            ops.append(as_np_dt(x))
                        except Undecided:
                            ops.append(np_operand(x))
                    return KDt(_rnp.result_type(*ops))
                return Builtin('np.' + name, rt)
            if name == 'issubdtype':
                def isd(d, t):
                    if isinstance(t, Opaque) and t.desc.startswith('np.'):
                        tt = getattr(_rnp, t.desc[3:])
                    else:
                        tt = as_np_dt(t)
                    return bool(_rnp.issubdtype(as_np_dt(d), tt))
                return Builtin('np.issubdtype', isd)
            if name == 'can_cast':
                return Builtin('np.can_cast', lambda a, b, casting='safe':
                               bool(_rnp.can_cast(
                                   a.dt if isinstance(a, KArr)
                                   else as_np_dt(a), as_np_dt(b), casting)))
            if name == 'dtype':
                return Builtin('np.dtype', lambda d: KDt(as_np_dt(d)))
        if isinstance(obj, KDt):
            if name in ('kind', 'itemsize', 'char', 'name'):
                return getattr(obj.dt, name)
            if name == 'type':
                return Opaque('np.' + obj.dt.name)
        return NotImplemented

    def on_subscript(self, interp, obj, idx):
        if isinstance(obj, KArr):
            return KArr(obj.dt, obj.frac)
        return NotImplemented

    def result(self, op, l, r):
        dt = _rnp.result_type(np_operand(l), np_operand(r))
        if op is ast.Div and dt.kind in 'biu':
            dt = _rnp.dtype('float64')
        return dt

    def on_binop(self, interp, op, l, r):
        if isinstance(l, KArr) or isinstance(r, KArr):
            return KArr(self.result(op, l, r),
                        getattr(l, 'frac', False) or getattr(r, 'frac',
                                                             False))
        return NotImplemented

    def on_call(self, interp, f, args, kwargs, node):
        if isinstance(f, Func) and f.name in ('is_real_dtype',
                                              'is_real_floating_dtype',
                                              'is_floating_dtype',
                                              'is_int_dtype',
                                              'is_complex_floating_dtype',
                                              'is_numeric_dtype'):
            k = as_np_dt(args[0]).kind
            return {'is_real_dtype': k in 'biuf',
                    'is_real_floating_dtype': k == 'f',
                    'is_floating_dtype': k in 'fc',
                    'is_int_dtype': k in 'iu',
                    'is_complex_floating_dtype': k == 'c',
                    'is_numeric_dtype': k in 'biufc'}[f.name]
        return NotImplemented


class KInterp(Interp):
    def cmp1(self, op, l, r, node):
        if isinstance(l, KArr) or isinstance(r, KArr):
            return KArr('bool')
        return Interp.cmp1(self, op, l, r, node)

    def assign(self, t, v, scope, func):
        if isinstance(t, ast.Subscript):
            obj = self.ev(t.value, scope, func)
            if isinstance(obj, KArr):
                # item / slice stores cast with 'unsafe': never an error
                return
        return Interp.assign(self, t, v, scope, func)

    def augassign(self, s, scope, func):
        if isinstance(s.target, (ast.Name, ast.Subscript)):
            cur = self.ev(s.target, scope, func)
            if isinstance(cur, KArr):
                v = self.ev(s.value, scope, func)
                res = self.hooks.result(type(s.op), cur, v)
                if not _rnp.can_cast(res, cur.dt, 'same_kind'):
                    # ufunc in-place output casting is 'same_kind'
                    self.hooks.events.append(
                        (s.lineno, ast.unparse(s), str(cur.dt), str(res)))
                    raise PyRaise('UFuncTypeError', s)
                if getattr(v, 'frac', False) and cur.dt.kind in 'fc':
                    cur.frac = True
                return
        return Interp.augassign(self, s, scope, func)


def kind_run(model, cls, schemes, vdt):
    """Abstract run of an interpolator class on a value array of dtype
    ``vdt`` with float64 nodes and float64 query points (out-of-place call).
    Returns ('ok', result dtype, dtypes of the searched points) or
    ('raise', name, line, stmt)."""
    hooks = KH(vdt)

    def once(assume):
        I = KInterp(model, assume, hooks)
        args = [[KArr('float64')], KArr(vdt), 'meshgrid']
        if cls == '_PerAxisInterpolator':
            args.append(list(schemes))
        inst = I.instantiate(model.get(cls), args, {})
        try:
            r = I.call(I.getattr_value(inst, '__call__'),
                       [(KArr('float64', True),)], {})
        except PyRaise as e:
            n = e.node
            return ('raise', e.name, getattr(n, 'lineno', None),
                    ast.unparse(n) if n is not None else '')
        if not isinstance(r, KArr):
            raise Undecided('result %r' % (r,))
        return ('ok', r.dt, list(hooks.search_dt), list(hooks.truncations))
    leaves = explore(once, limit=8)
    if len(leaves) != 1:
        raise Undecided('%d paths' % len(leaves))
    return leaves[0][1]


FACTORY_OF = {'_NearestInterpolator': 'nearest_interpolator',
              '_LinearInterpolator': 'linear_interpolator',
              '_PerAxisInterpolator': 'per_axis_interpolator'}


def kind_run_factory(model, cls, schemes, vdt):
    """Like kind_run, but through the public factory function (its own
    conversions of the value array included); the input classification
    helper `_check_interp_input` is a primitive here."""
    hooks = KH(vdt)
    base_on_call = hooks.on_call

    def on_call(interp, f, args, kwargs, node):
        if isinstance(f, Func) and f.name == '_check_interp_input':
            return (args[0], 'meshgrid', False)
        return base_on_call(interp, f, args, kwargs, node)
    hooks.on_call = on_call
    fname = FACTORY_OF[cls]
    fn = model.ctx.func(DU, fname)
    if fn is None:
        raise AnalysisError('anchor vanished: %s' % fname)

    def once(assume):
        I = KInterp(model, assume, hooks)
        args = [KArr(vdt), [KArr('float64')]]
        if cls == '_PerAxisInterpolator':
            args.append(list(schemes))
        try:
            interp = I.call_func(Func(fn, I.env_of(DU), None), args, {})
            r = I.call(interp, [(KArr('float64', True),)], {})
        except PyRaise as e:
            n = e.node
            return ('raise', e.name, getattr(n, 'lineno', None),
                    ast.unparse(n) if n is not None else '')
        if not isinstance(r, KArr):
            raise Undecided('result %r' % (r,))
        return ('ok', r.dt, list(hooks.search_dt), list(hooks.truncations))
    leaves = explore(once, limit=8)
    if len(leaves) != 1:
        raise Undecided('%d paths' % len(leaves))
    return leaves[0][1]


VALUE_DTYPES = ['float64', 'float32', 'complex128', 'complex64', 'int64',
                'int32', 'int16', 'int8', 'uint8']


def find_indices(model, case):
    """(index, normalised distance) computed by _Interpolator._find_indices
    for the case (1-d)."""
    ax = Axis(0, case)
    hooks = IH([ax])
    vals = values_nd(1)

    def once(assume):
        I = IInterp(model, assume, hooks)
        inst = I.instantiate(model.get('_LinearInterpolator'),
                             [[ax.cvec], vals, 'meshgrid'], {})
        return I.call(I.getattr_value(inst, '_find_indices'),
                      [(ax.xarr,)], {})
    leaves = explore(once, limit=4)
    if len(leaves) != 1:
        raise Undecided('%d paths' % len(leaves))
    iv, nd = leaves[0][1]
    return iv[0].items[0], to_rat(nd[0].items[0]), ax


def want_indices(case, ax):
    """The demanded (index, distance): normalised by the cell of the clamped
    index."""
    if case.kind == 'node':
        if case.k == 0:
            return 0, Rat.const(0)
        return case.k - 1, Rat.const(1)
    return case.k, ax.y


SCHEMES_1D = [('nearest_interpolator', ('nearest',)),
              ('linear_interpolator', ('linear',)),
              ('per_axis_interpolator', ('nearest',)),
              ('per_axis_interpolator', ('linear',)),
              ('_NearestInterpolator', ('nearest',)),
              ('_LinearInterpolator', ('linear',)),
              ('_PerAxisInterpolator', ('nearest',)),
              ('_PerAxisInterpolator', ('linear',))]


def schemes_nd(ndim):
    out = [('nearest_interpolator', ('nearest',) * ndim),
           ('linear_interpolator', ('linear',) * ndim)]
    for sch in itertools.product(('nearest', 'linear'), repeat=ndim):
        out.append(('per_axis_interpolator', sch))
    return out


def reduced_cases():
    cs = cases(outside=False)
    keep = ('node0', 'node%d' % (NN - 1), 'cell0:(1/2,1)', 'cell1:(0,1/2)',
            'cell1:tie', 'cell2:(1/2,1)')
    return [c for c in cs if c.name in keep]


def check(ctx):
    rep = Report(
        'C15', ctx, 'other',
        'The interpolator classes and public factories of discr_utils are '
        'evaluated by symbolic interpretation on grids with symbolic, '
        'strictly increasing nodes and symbolic node values, once per '
        'ordering case of every query coordinate (on node k; in cell k with '
        'normalised distance in (0,1/2), equal to 1/2, in (1/2,1); just '
        'below / above the hull).  searchsorted is answered from the case; '
        'every comparison the code makes on the normalised distance is '
        'decided for the whole case interval (the root of the compared '
        'affine function must not lie inside it).  R1/R1b/R1c: the result '
        'equals, as a polynomial identity in the node values and the '
        'distances, the closest-node value (ties to the right) resp. the '
        'multilinear blend of the surrounding nodes (1-d, 2-d all scheme '
        'combinations, 3-d in the thorough tier), with and without `out`, '
        'so node values are reproduced and linear interpolation is exact '
        'for affine functions.  R2: nearest-neighbour interpolation does no '
        'arithmetic on the values.  R4: sampling_function / dual_use_func / '
        'point_collocation sample out-of-place, in-place, dual-use and '
        'vectorize-decorated callables on small meshes and point arrays to '
        'exactly the function values.  R3: _find_indices returns the clamped '
        'cell and the distance normalised by that cell.  R5: the NumPy '
        'dtypes of all arrays in the out-of-place evaluation are propagated '
        'with NumPy\'s own promotion / casting tables for nine value '
        'dtypes; every in-place ufunc must be closed (same_kind), the '
        'result of a weighted scheme is inexact and at least double for '
        'integer values, and the float64 query points reach the node '
        'search without loss of precision.  '
        'R6: wiring of Resampling, linear_deform and DiscretizedSpace.element '
        'to the interpolators / sampling helpers.  R7: signature table of '
        '_check_func_out_arg and the (func_ip, func_oop) selection of '
        'sampling_function.',
        ['CPython ast', 'NumPy semantics of searchsorted (left insertion '
         'index in an increasing vector), boolean/integer fancy indexing, '
         'np.where, type promotion by dtype kind, same_kind casting of '
         'in-place ufuncs'],
        ['broadcasting / vectorisation of user callables (NumPy semantics on '
         'data)', 'equivalence of mesh-grid and point-array calling '
         'conventions (shape handling)', 'floating-point rounding',
         'in-place accumulation into an integer `out` (the documented dtype '
         'equality makes the blend unrepresentable)'])
    model = Model(ctx)
    for nm in ('_Interpolator', '_NearestInterpolator',
               '_PerAxisInterpolator', '_LinearInterpolator'):
        if model.get(nm) is None:
            raise AnalysisError('anchor vanished: %s' % nm)
    thorough = ctx.tier == 'thorough'

    def compare(rule, how, sch, cs_tuple, with_out=False, layout='C'):
        key = '%s[%s]%s%s' % (how, ','.join(sch), ':out' if with_out else '',
                              '' if layout == 'C' else ':values in Fortran '
                              'order')
        for ct, res in run_split(model, how, sch, cs_tuple, with_out,
                                 values_nd(len(cs_tuple), layout)):
            cname = ' x '.join(c.name for c in ct)
            if isinstance(res, PyRaise):
                return key, 'raises %s on case %s' % (res.name, cname)
            got, axes, vals, dec = res
            want = expected(axes, sch, vals)
            got = to_rat(got)
            rep.count('conditions decided for a whole case interval',
                      len(dec))
            if not (got - want).is_zero():
                return key, 'case %s: computes %r, the property demands %r' \
                    % (cname, got, want)
        return key, None

    def sweep(rule, configs, case_tuples, with_out=False, layout='C'):
        n = 0
        for how, sch in configs:
            bad = []
            for ct in case_tuples:
                key, msg = compare(rule, how, sch, ct, with_out, layout)
                n += 1
                if msg:
                    bad.append(msg)
            if bad:
                rep.violation(rule, key, '%d of %d ordering cases fail; '
                              'first: %s' % (len(bad), len(case_tuples),
                                             bad[0]), DU)
            else:
                rep.holds(rule, key, '%d ordering cases' % len(case_tuples))
        return n

    # ---- R3 node search ---------------------------------------------------
    n3 = 0
    bad = []
    def fi_split(cs, depth=0):
        try:
            yield cs, find_indices(model, cs)
        except PyRaise as e:
            yield cs, e
        except SplitCase as sp:
            if depth > 6:
                raise Undecided('case split too deep')
            for sub in cs.split(sp.root):
                for r in fi_split(sub, depth + 1):
                    yield r
    for cs0 in cases():
        n3 += 1
        for cs, res in fi_split(cs0):
            if isinstance(res, PyRaise):
                bad.append('case %s: raises %s' % (cs, res.name))
                continue
            idx, nd, ax = res
            wi, wn = want_indices(cs, ax)
            if idx != wi or not (nd - wn).is_zero():
                bad.append('case %s: (index, distance) = (%r, %r), demanded '
                           '(%r, %r)' % (cs, idx, nd, wi, wn))
    if bad:
        m = model.lookup(model.get('_Interpolator'), '_find_indices')[1]
        rep.violation('R3', '_Interpolator._find_indices',
                      '%d of %d cases fail; first: %s' % (len(bad), n3,
                                                          bad[0]),
                      DU, m.lineno)
    else:
        rep.holds('R3', '_Interpolator._find_indices', '%d ordering cases: '
                  'clamped cell index, distance normalised by that cell'
                  % n3)
    rep.floor('R3', 'ordering cases', n3, 15)

    # ---- R1 one axis, all cases incl. just outside the hull -----------------
    c1 = [(c,) for c in cases()]
    n1 = sweep('R1', SCHEMES_1D, c1)
    n1 += sweep('R1', SCHEMES_1D, c1, with_out=True)
    rep.floor('R1', '1-d evaluations', n1, 240)

    # ---- R1b two axes: corner pairing ---------------------------------------
    inside = cases(outside=False)
    if thorough:
        c2 = list(itertools.product(cases(), repeat=2))
    else:
        c2 = list(itertools.product(inside, repeat=2))
    n2 = sweep('R1b', schemes_nd(2), c2)
    rep.floor('R1b', '2-d evaluations', n2, 6 * 169)

    # ---- R1L the same with the value array in Fortran memory order -----------
    red2 = list(itertools.product(reduced_cases(), repeat=2))
    cfgL = schemes_nd(2) + [('_NearestInterpolator', ('nearest',) * 2),
                            ('_LinearInterpolator', ('linear',) * 2)]
    nL = sweep('R1L', cfgL, red2, layout='F')
    nL += sweep('R1L', cfgL, red2, with_out=True, layout='F')
    rep.floor('R1L', '2-d evaluations on Fortran-ordered values', nL, 100)

    # ---- R1c three axes -------------------------------------------------------
    red = reduced_cases()
    c3 = list(itertools.product(red, repeat=3))
    cfg3 = schemes_nd(3) if thorough else [
        ('linear_interpolator', ('linear',) * 3),
        ('per_axis_interpolator', ('nearest', 'linear', 'nearest')),
        ('per_axis_interpolator', ('linear', 'nearest', 'linear'))]
    if not thorough:
        c3 = c3[::5]
    n3d = sweep('R1c', cfg3, c3)
    rep.count('3-d evaluations', n3d)

    # ---- R2 nearest neighbour: no arithmetic on the values ------------------
    for how in ('nearest_interpolator', '_NearestInterpolator'):
        okc = 0
        msg = None
        for cs in cases():
            vals = ND((NN,), {(i,): Opaque('string%d' % i)
                              for i in range(NN)})
            try:
                got, axes, _, _ = run(model, how, ('nearest',), (cs,),
                                      vals=vals)
            except SplitCase:
                continue
            except (Undecided, PyRaise) as e:
                msg = 'case %s: %s' % (cs, e)
                break
            (k, _), = axes[0].nearest_weights().items()
            if got is not vals.get((k,)):
                msg = 'case %s: returns %r instead of node %d' % (cs, got, k)
                break
            okc += 1
        if msg:
            rep.violation('R2', how, 'non-numeric values: ' + msg, DU)
        else:
            rep.holds('R2', how, 'values only selected, never combined '
                      '(%d cases)' % okc)

    # ---- R5 dtype closure and precision -------------------------------------------
    n5 = 0
    for cls, sch in [('_NearestInterpolator', ('nearest',)),
                     ('_LinearInterpolator', ('linear',)),
                     ('_PerAxisInterpolator', ('nearest',)),
                     ('_PerAxisInterpolator', ('linear',))]:
        for vdt, via in itertools.product(VALUE_DTYPES, ('class',
                                                         'factory')):
            key = '%s[%s]:%s' % (cls if via == 'class' else FACTORY_OF[cls],
                                 sch[0], vdt)
            try:
                if via == 'class':
                    r = kind_run(model, cls, sch, vdt)
                else:
                    r = kind_run_factory(model, cls, sch, vdt)
            except Undecided as e:
                rep.undecided('R5', key, str(e), DU)
                continue
            n5 += 1
            if r[0] == 'raise':
                rep.violation('R5', key, 'out-of-place evaluation raises %s '
                              'at `%s`: the accumulator cannot hold the '
                              'weighted sum' % (r[1], r[3]), DU, r[2])
                continue
            rdt, sdts = r[1], r[2]
            probs = []
            vd = _rnp.dtype(vdt)
            if cls == '_NearestInterpolator':
                if rdt != vd:
                    probs.append('result dtype %s, the values have %s'
                                 % (rdt, vd))
            else:
                # a weighted sum: inexact, and not narrower than both the
                # values and single precision
                if rdt.kind not in 'fc' or not _rnp.can_cast(
                        vd, rdt, 'same_kind') or (
                            vd.kind in 'fc' and rdt != vd) or (
                                vd.kind in 'iu' and rdt.itemsize < 8):
                    probs.append('result dtype %s for %s values' % (rdt, vd))
            # the query points (float64) must reach the node search and the
            # distance computation without loss of precision
            for sd in sdts:
                if sd is None or not _rnp.can_cast('float64', sd, 'safe'):
                    probs.append('the float64 query points are cast to %s '
                                 'before the node search' % sd)
                    break
            if not sdts:
                probs.append('no node search observed')
            if len(r) > 3 and r[3]:
                probs.append('fractional data derived from the query points '
                             '(distances / interpolation weights) are '
                             'truncated to an integer dtype: %s' % r[3][0])
            if probs:
                rep.violation('R5', key, '; '.join(probs), DU)
            else:
                rep.holds('R5', key, 'in-place ufuncs closed; result %s; '
                          'points searched as %s' % (rdt, sdts[0]))
    rep.floor('R5', 'dtype runs', n5, 36)

    # ---- R6 forwarding -----------------------------------------------------------
    forwarding(rep, model)
    signatures(rep, model)
    sampling(rep, model, thorough)
    element_ownership(rep, model)
    return rep


# ---------------------------------------------------------------------------
# R6: forwarding (who is interpolated on which nodes and sampled where),
# decided on captured *values*, not on argument spelling
# ---------------------------------------------------------------------------
class FH(Hooks):
    """Records the calls to the interpolator factories."""

    def __init__(self):
        self.factory_calls = []
        self.interp_calls = []

    def mk_factory(self, I, name):
        fn = I.model.ctx.func(DU, name)

        def factory(*a, **k):
            from ..srcmodel import bind_values
            b = bind_values(fn, list(a), dict(k))
            self.factory_calls.append((name, b))
            rec = Rec('interpolator', of=b)

            def interp(x, out=None):
                self.interp_calls.append((rec, x, out))
                if out is not None:
                    return out
                return Rec('interpolated', by=rec, at=x)
            bi = Builtin('interpolator', interp)
            bi.rec = rec
            return bi
        return Builtin(name, factory)

    def on_name(self, interp, name):
        if name in ('per_axis_interpolator', 'linear_interpolator',
                    'nearest_interpolator'):
            return self.mk_factory(interp, name)
        if name == 'writable_array':
            return Builtin('writable_array', lambda a, **k: a)
        return NotImplemented

    def on_getattr(self, interp, obj, name):
        if isinstance(obj, Rec) and name in obj.attrs:
            return obj.attrs[name]
        return NotImplemented


def _space(tag, ndim=2):
    cv = Rec('coord_vectors:' + tag)
    mg = Rec('meshgrid:' + tag)
    return Rec('space:' + tag, grid=Rec('grid:' + tag, coord_vectors=cv),
               meshgrid=mg, ndim=ndim, shape=(3,) * ndim), cv, mg


def forwarding(rep, model):
    # ---- Resampling._call ---------------------------------------------------
    ci = model.get('Resampling')
    if ci is None or '_call' not in ci.methods:
        raise AnalysisError('anchor vanished: Resampling._call')
    for sch in (('linear', 'linear'), ('nearest', 'linear')):
        for with_out in (False, True):
            cons = 'Resampling._call[%s]%s' % (
                ','.join(sch), ':out' if with_out else '')
            h = FH()
            I = Interp(model, {}, h)
            dom, dcv, dmg = _space('domain')
            ran, rcv, rmg = _space('range')
            inst = Inst(ci)
            inst.attrs.update({'domain': dom, 'range': ran,
                               '_Resampling__interp_byaxis': sch})
            x = Rec('x')
            out = Rec('out') if with_out else None
            try:
                r = I.call(I.getattr_value(inst, '_call'), [x],
                           {'out': out} if with_out else {})
            except PyRaise as e:
                rep.violation('R6', cons, 'raises %s' % e.name, ci.rel,
                              ci.methods['_call'].lineno)
                continue
            probs = []
            if len(h.factory_calls) != 1 or len(h.interp_calls) != 1:
                probs.append('%d interpolators built, %d evaluated'
                             % (len(h.factory_calls), len(h.interp_calls)))
            else:
                name, b = h.factory_calls[0]
                if b.get('f') is not x:
                    probs.append('interpolated values are %r, not the '
                                 'operator argument' % (b.get('f'),))
                if b.get('coord_vecs') is not dcv:
                    probs.append('nodes are %r, not the coordinate vectors '
                                 'of the domain grid' % (b.get('coord_vecs'),))
                it = b.get('interp')
                if name != 'per_axis_interpolator' or (
                        tuple(it) if not isinstance(it, str) else
                        (it,) * 2) != sch:
                    probs.append('scheme %r instead of %r' % (it, sch))
                rec, at, o = h.interp_calls[0]
                if at is not rmg:
                    probs.append('sampled at %r, not at the mesh grid of '
                                 'the range' % (at,))
                if with_out:
                    if o is not out:
                        probs.append('`out` not handed to the interpolator')
                    if r is not out:
                        probs.append('returns %r instead of `out`' % (r,))
                elif not (isinstance(r, Rec) and r.kind == 'interpolated'):
                    probs.append('returns %r' % (r,))
            if probs:
                rep.violation('R6', cons, '; '.join(probs), ci.rel,
                              ci.methods['_call'].lineno)
            else:
                rep.holds('R6', cons, 'argument interpolated on the domain '
                          'nodes, sampled on the range mesh')
    # ---- DiscretizedSpace.element -----------------------------------------
    _element(rep, model)
    deform(rep, model)
    deform_alias(rep, model)
    interp_property(rep, model)
    single_node_axes(rep, model)


class EH(Hooks):
    def __init__(self):
        self.sf = []
        self.pc = []
        self.te = []

    def on_name(self, interp, name):
        if name == 'sampling_function':
            def sf(func_or_arr, domain, out_dtype=None):
                self.sf.append((func_or_arr, domain, out_dtype))
                return Rec('sampler', of=func_or_arr)
            return Builtin('sampling_function', sf)
        if name == 'point_collocation':
            def pc(func, points, out=None, **kw):
                self.pc.append((func, points, out, kw))
                return Rec('sampled', by=func, at=points)
            return Builtin('point_collocation', pc)
        return NotImplemented

    def on_getattr(self, interp, obj, name):
        if isinstance(obj, Rec) and obj.kind == 'tspace' and \
                name == 'element':
            def el(inp=None, **kw):
                self.te.append((inp, kw))
                return Rec('tensor', of=inp)
            return Builtin('tspace.element', el)
        if isinstance(obj, Rec) and name in obj.attrs:
            return obj.attrs[name]
        if obj is NPV and name in ('may_share_memory', 'shares_memory'):
            # abstract, distinct arrays (memory ownership is rule R4c)
            return Builtin('np.' + name, lambda a, b: False)
        return NotImplemented

    def on_call(self, interp, f, args, kwargs, node):
        return NotImplemented


def _element(rep, model):
    ci = model.get('DiscretizedSpace')
    if ci is None or 'element' not in ci.methods:
        raise AnalysisError('anchor vanished: DiscretizedSpace.element')
    cons = 'DiscretizedSpace.element[callable]'
    h = EH()

    class EI(Interp):
        def contains(self, cont, item, node):
            # a Python callable is neither an element of the space nor of
            # its tensor space
            if isinstance(item, Builtin):
                return False
            return Interp.contains(self, cont, item, node)
    I = EI(model, {}, h)
    inst = Inst(ci)
    dom = Rec('domain')
    mg = (Rec('mesh0'), Rec('mesh1'))
    dt = Rec('dtype')
    inst.attrs.update({'domain': dom, 'meshgrid': mg, 'dtype': dt,
                       'tspace': Rec('tspace'),
                       'element_type': Builtin(
                           'element_type', lambda sp, t: Rec(
                               'element', space=sp, tensor=t))})
    fn = Builtin('user_function', lambda *a, **k: None)
    try:
        r = I.call(I.getattr_value(inst, 'element'), [fn], {'c': 3})
    except PyRaise as e:
        rep.violation('R6', cons, 'raises %s' % e.name, ci.rel,
                      ci.methods['element'].lineno)
        return
    probs = []
    if len(h.sf) != 1 or len(h.pc) != 1 or len(h.te) != 1:
        probs.append('%d sampling wrappers, %d collocations, %d tensor '
                     'elements' % (len(h.sf), len(h.pc), len(h.te)))
    else:
        f, d, od = h.sf[0]
        if f is not fn:
            probs.append('wraps %r' % (f,))
        if d is not dom:
            probs.append('input domain %r' % (d,))
        if od is not dt:
            probs.append('output dtype %r instead of the space dtype'
                         % (od,))
        func, pts, out, kw = h.pc[0]
        if not (isinstance(func, Rec) and func.kind == 'sampler'):
            probs.append('collocates %r' % (func,))
        if pts is not mg:
            probs.append('samples at %r, not the mesh grid of the space'
                         % (pts,))
        if kw.get('c') != 3:
            probs.append('keyword arguments of the callable not forwarded')
        inp, _ = h.te[0]
        if not (isinstance(inp, Rec) and inp.kind == 'sampled'):
            probs.append('tensor built from %r' % (inp,))
        if not (isinstance(r, Rec) and r.kind == 'element' and
                r.attrs['space'] is inst):
            probs.append('returns %r' % (r,))
    if probs:
        rep.violation('R6', cons, '; '.join(probs), ci.rel,
                      ci.methods['element'].lineno)
    else:
        rep.holds('R6', cons, 'callable wrapped with the space domain and '
                  'dtype, collocated on the space mesh, kwargs forwarded')


class PArr(object):
    """(n, d) point array with symbolic entries: cols[i] is an SArr."""

    def __init__(self, cols, transposed=False):
        self.cols = cols
        self.transposed = transposed


class LayoutArr(object):
    """A 2 x 2 array stored in Fortran order (what `element` wraps without
    copying when it is given transposed data): `items[a][b]` is the entry
    with logical index (a, b)."""

    def __init__(self, items):
        self.items = items

    def flat(self, order='C'):
        n0, n1 = len(self.items), len(self.items[0])
        if order == 'C':
            return [self.items[a][b] for a in range(n0) for b in range(n1)]
        # 'F', and 'A' / 'K' (memory order of an F-contiguous array)
        return [self.items[a][b] for b in range(n1) for a in range(n0)]


class DH(FH):
    def on_getattr(self, interp, obj, name):
        if isinstance(obj, PArr) and name == 'T':
            return PArr(obj.cols, not obj.transposed)
        if isinstance(obj, SArr) and name == 'ravel':
            return Builtin('ravel', lambda order='C': obj)
        if isinstance(obj, LayoutArr):
            if name in ('ravel', 'flatten'):
                return Builtin(name, lambda order='C': SArr(obj.flat(
                    order if isinstance(order, str) else 'C')))
            if name == 'reshape':
                def rs(*shape, **k):
                    if shape in ((-1,), ((-1,),)):
                        return SArr(obj.flat(k.get('order', 'C')))
                    raise Undecided('reshape of the displacement to %r'
                                    % (shape,))
                return Builtin('reshape', rs)
            if name == 'T':
                return LayoutArr([list(r) for r in zip(*obj.items)])
            if name == 'shape':
                return (len(obj.items), len(obj.items[0]))
            if name == 'size':
                return len(obj.items) * len(obj.items[0])
            raise Undecided('attribute %s of the displacement array' % name)
        if isinstance(obj, Rec) and obj.kind in ('interpolated', 'out') \
                and name == 'reshape':
            return Builtin('reshape', lambda shape: Rec(
                'reshaped', of=obj, shape=shape))
        return FH.on_getattr(self, interp, obj, name)

    def on_subscript(self, interp, obj, idx):
        if isinstance(obj, PArr) and isinstance(idx, tuple) and \
                len(idx) == 2 and idx[0] == slice(None) and \
                isinstance(idx[1], int) and not obj.transposed:
            return obj.cols[idx[1]]
        return NotImplemented


class DI(Interp):
    def assign(self, t, v, scope, func):
        if isinstance(t, ast.Subscript):
            obj = self.ev(t.value, scope, func)
            if isinstance(obj, PArr):
                idx = self.ev(t.slice, scope, func)
                if isinstance(idx, tuple) and len(idx) == 2 and \
                        idx[0] == slice(None) and isinstance(idx[1], int) \
                        and isinstance(v, SArr) and not obj.transposed:
                    obj.cols[idx[1]] = v
                    return
                raise Undecided('store into the point array at %r' % (idx,))
        return Interp.assign(self, t, v, scope, func)


def deform_alias(rep, model):
    """R6a: the deformation operators (domain = range) evaluate the
    interpolation of the template before anything is written to `out`:
    under `out is <input>` no array kernel may receive the shared buffer as
    its input and as its output, and no read of the input may follow the
    first write (effect / alias dataflow with one shared cell)."""
    from ..effects import Analyzer
    LD = 'odl/deform/linearized.py'
    n = 0
    for cn in ('LinDeformFixedDisp', 'LinDeformFixedTempl'):
        ci = model.get(cn)
        if ci is None or '_call' not in ci.methods:
            raise AnalysisError('anchor vanished: %s._call' % cn)
        fn = ci.methods['_call']
        xn = [p.arg for p in fn.args.args][1]
        cons = '%s._call[out is %s]' % (cn, xn)
        n += 1
        try:
            an = Analyzer(model, ci, fn, {xn: 'X', 'out': 'OUT'},
                          {'out is None': False, 'out is not None': True},
                          alias_mode=True)
            probs = []
            for p in an.run():
                if p.raised:
                    continue
                for ln, txt in p.alias_kernel:
                    probs.append('`%s` (line %d) hands the shared buffer '
                                 'to the kernel as input and as output'
                                 % (txt, ln))
                clob = None
                for e in p.events:
                    if e.kind in ('W', 'PW', 'RMW') and clob is None:
                        clob = e
                    elif clob is not None and e.kind == 'R' and \
                            e.via == xn and e.stmt_id != clob.stmt_id:
                        probs.append('`%s` (line %d) reads the input after '
                                     '`%s` has written the shared buffer'
                                     % (e.text, e.line, clob.text))
                if p.unknown:
                    raise Undecided('buffer handed to an unknown callee: %s'
                                    % p.unknown[0][1])
            if probs:
                rep.violation('R6a', cons, '; '.join(sorted(set(probs))[:2]),
                              LD, fn.lineno)
            else:
                rep.holds('R6a', cons, 'the interpolated values exist '
                          'before out is written')
        except Undecided as e:
            rep.undecided('R6a', cons, str(e), LD, fn.lineno)
    rep.floor('R6a', 'deformation operators', n, 2)


def single_node_axes(rep, model):
    """R1s: grids with an axis of a single node (a legal space shape): at a
    query point whose coordinate on that axis is the node, every scheme
    returns the blend along the other axes -- in particular the node values
    are reproduced.  1-d: the node itself; 2-d: single-node axis x regular
    axis over the reduced ordering cases of the regular axis."""
    n = 0
    node0 = Case('node', 0, name='node0')
    jobs = []
    for how, sch in SCHEMES_1D:
        if how.startswith('_'):
            continue
        jobs.append((how, sch, (node0,), (1,)))
    reg = [c for c in cases(outside=False)
           if c.name in ('node0', 'node%d' % (NN - 1), 'cell1:(0,1/2)',
                         'cell1:(1/2,1)')]
    for how, sch in schemes_nd(2):
        for c in reg:
            jobs.append((how, sch, (node0, c), (1, NN)))
            jobs.append((how, sch, (c, node0), (NN, 1)))
    for how, sch, ct, nodes in jobs:
        n += 1
        key = '%s[%s] on a %s grid' % (how, ','.join(sch), ' x '.join(
            map(str, nodes)))
        cons = '%s at %s' % (key, ','.join(map(repr, ct)))
        try:
            got, axes, vals, dec = run(model, how, sch, ct, nodes=nodes)
            want = expected(axes, sch, vals)
        except PyRaise as e:
            rep.violation('R1s', key, '%s: raises %s' % (cons, e.name), DU)
            continue
        except ZeroDivisionError:
            rep.violation('R1s', key, '%s: the distance is normalised by a '
                          'cell of length zero (0 / 0, nan in floating '
                          'point)' % cons, DU)
            continue
        except (Undecided, SplitCase) as e:
            rep.undecided('R1s', cons, str(e), DU)
            continue
        if isinstance(got, Opaque):
            rep.violation('R1s', key, '%s: value %s, demanded %r (the '
                          'distance on the single-node axis is normalised '
                          'by a cell of length zero)' % (cons, got.desc,
                                                         want), DU)
        elif (to_rat(got) - want).is_zero():
            rep.holds('R1s', cons, 'value %r' % (want,))
        else:
            rep.violation('R1s', key, '%s: value %r, demanded %r'
                          % (cons, got, want), DU)
    rep.floor('R1s', 'single-node-axis evaluations', n, 50)


def interp_property(rep, model):
    """R7i: the `interp` property of the operators that interpolate (the two
    linearized deformations, Resampling) is the common scheme if and only if
    all per-axis schemes agree, else the per-axis tuple -- it is what their
    `_call` hands to the interpolation kernel.  Evaluated for every tuple
    over {linear, nearest} of length 1..4."""
    import itertools
    n = 0
    for rel, cname in (('odl/deform/linearized.py', 'LinDeformFixedTempl'),
                       ('odl/deform/linearized.py', 'LinDeformFixedDisp'),
                       ('odl/discr/discr_ops.py', 'Resampling')):
        ci = model.get(cname)
        if ci is None:
            raise AnalysisError('anchor vanished: %s' % cname)
        for k in (1, 2, 3, 4):
            for tup in itertools.product(('linear', 'nearest'), repeat=k):
                cons = '%s.interp%r' % (cname, tup)
                n += 1
                I = Interp(model, {}, Hooks())
                obj = Inst(ci)
                obj.attrs['_%s__interp_byaxis' % cname] = tup
                try:
                    got = I.getattr_value(obj, 'interp')
                except Undecided as e:
                    rep.undecided('R7i', cons, str(e), rel)
                    continue
                except PyRaise as e:
                    rep.violation('R7i', '%s.interp' % cname,
                                  '%s raises %s' % (cons, e.name), rel)
                    continue
                want = tup[0] if len(set(tup)) == 1 else tup
                if (tuple(got) if isinstance(got, (list, tuple)) else got) \
                        == want:
                    rep.holds('R7i', cons, 'scheme %r' % (want,))
                else:
                    rep.violation(
                        'R7i', '%s.interp' % cname,
                        'per-axis schemes %r are reported (and handed to the '
                        'interpolation kernel) as %r' % (tup, got), rel)
    rep.floor('R7i', 'interp tuples', n, 90)


def deform(rep, model):
    LD = 'odl/deform/linearized.py'
    fn = model.ctx.func(LD, 'linear_deform')
    if fn is None:
        raise AnalysisError('anchor vanished: linear_deform')
    for with_out in (False, True):
        cons = 'linear_deform%s' % (':out' if with_out else '')
        h = DH()
        I = DI(model, {}, h)
        # a 2 x 2 grid: four points in C order; the displacement components
        # are 2 x 2 arrays stored in Fortran order
        npts, d = 4, 2
        P = [[Rat.var('p%d_%d' % (j, i)) for j in range(npts)]
             for i in range(d)]
        V = [[Rat.var('v%d_%d' % (j, i)) for j in range(npts)]
             for i in range(d)]
        pts = PArr([SArr(list(c)) for c in P])
        sp, cv, mg = _space('template')
        sp.attrs['points'] = Builtin('points', lambda: pts)
        templ = Rec('template', space=sp)
        disp = [Rec('disp%d' % i, asarray=Builtin(
            'asarray', lambda i=i: LayoutArr(
                [[V[i][2 * a + b] for b in range(2)] for a in range(2)])))
            for i in range(d)]
        out = Rec('out') if with_out else None
        try:
            r = I.call_func(Func(fn, I.env_of(LD), None),
                            [templ, disp, ('linear', 'nearest')],
                            {'out': out} if with_out else {})
        except PyRaise as e:
            rep.violation('R6', cons, 'raises %s' % e.name, LD, fn.lineno)
            continue
        probs = []
        if len(h.factory_calls) != 1 or len(h.interp_calls) != 1:
            probs.append('%d interpolators built, %d evaluated'
                         % (len(h.factory_calls), len(h.interp_calls)))
        else:
            name, b = h.factory_calls[0]
            if b.get('f') is not templ:
                probs.append('interpolated values are %r, not the template'
                             % (b.get('f'),))
            if b.get('coord_vecs') is not cv:
                probs.append('nodes are %r, not the coordinate vectors of '
                             'the template grid' % (b.get('coord_vecs'),))
            if tuple(b.get('interp') or ()) != ('linear', 'nearest'):
                probs.append('scheme %r' % (b.get('interp'),))
            rec, at, o = h.interp_calls[0]
            if not (isinstance(at, PArr) and at.transposed):
                probs.append('evaluated at %r, not at a (d, n) point array'
                             % (at,))
            else:
                for i in range(d):
                    for j in range(npts):
                        got = to_rat(at.cols[i].items[j])
                        if not (got - (P[i][j] + V[i][j])).is_zero():
                            probs.append('point %d, axis %d is %r, not '
                                         'x + v(x)' % (j, i, got))
            if with_out and o is not out:
                probs.append('`out` not handed to the interpolator')
            if not (isinstance(r, Rec) and r.kind == 'reshaped' and
                    r.attrs['shape'] == sp.attrs['shape']) and not with_out:
                probs.append('returns %r' % (r,))
        if probs:
            rep.violation('R6', cons, '; '.join(probs[:3]), LD, fn.lineno)
        else:
            rep.holds('R6', cons, 'template interpolated on its own nodes '
                      'at x + v(x)')


# ---------------------------------------------------------------------------
# R7: signature classification of user callables
# ---------------------------------------------------------------------------
class SH(Hooks):
    def on_name(self, interp, name):
        if name == 'inspect':
            return Rec('inspect',
                       getfullargspec=Builtin(
                           'getfullargspec', lambda f: f.attrs['spec']),
                       getargspec=Builtin(
                           'getargspec', lambda f: f.attrs['spec']),
                       isfunction=Builtin(
                           'isfunction', lambda f: isinstance(f, Rec) and
                           f.kind == 'pyfunc'))
        if name == 'sys':
            return Rec('sys', version_info=Rec('version_info', major=3))
        if name == 'callable':
            return Builtin('callable', lambda f: isinstance(f, Rec) and
                           f.kind in ('pyfunc', 'callable_obj', 'ufunc'))
        return NotImplemented

    def on_getattr(self, interp, obj, name):
        if isinstance(obj, Rec):
            if name in obj.attrs:
                return obj.attrs[name]
            raise PyRaise('AttributeError')
        return NotImplemented


def _spec(args, defaults=None, varargs=None, kwonly=(), varkw=None):
    return Rec('spec', args=list(args), defaults=defaults, varargs=varargs,
               kwonlyargs=list(kwonly), varkw=varkw)


SIGNATURES = [
    # (description, spec, (has_out, out_optional) | 'TypeError')
    ('f(x)', _spec(['x']), (False, False)),
    ('f(x, out)', _spec(['x', 'out']), (True, False)),
    ('f(x, out=None)', _spec(['x', 'out'], (None,)), (True, True)),
    ('f(x, *, out=None)', _spec(['x'], None, None, ['out']), (True, True)),
    ('f(x, out, c=1)', _spec(['x', 'out', 'c'], (1,)), (True, False)),
    ('f(x, c=0, out=None)', _spec(['x', 'c', 'out'], (0, None)),
     (True, True)),
    ('f(x, **kwargs)', _spec(['x'], None, None, (), 'kwargs'),
     (False, False)),
    ('f(x, c=0)', _spec(['x', 'c'], (0,)), (False, False)),
    ('f(*args)', _spec([], None, 'args'), 'TypeError'),
]


def signatures(rep, model):
    fn = model.ctx.func(DU, '_func_out_type')
    if fn is None or model.ctx.func(DU, '_check_func_out_arg') is None:
        raise AnalysisError('anchor vanished: _func_out_type')
    n = 0
    objs = []
    for desc, spec, want in SIGNATURES:
        objs.append((desc, Rec('pyfunc', spec=spec), want))
        # a callable object: its __call__ is inspected
        objs.append(('obj.__call__ = ' + desc, Rec(
            'callable_obj', __call__=Rec('pyfunc', spec=spec)), want))
    objs.append(('ufunc(nin=1, nout=1)', Rec('ufunc', nin=1, nout=1,
                                            __name__='u'), (True, True)))
    objs.append(('ufunc(nin=2, nout=1)', Rec('ufunc', nin=2, nout=1,
                                            __name__='u'), 'ValueError'))
    objs.append(('ufunc(nin=1, nout=2)', Rec('ufunc', nin=1, nout=2,
                                            __name__='u'), 'ValueError'))
    objs.append(('non-callable', Rec('thing'), 'TypeError'))
    for desc, f, want in objs:
        I = Interp(model, {}, SH())
        n += 1
        try:
            got = I.call_func(Func(fn, I.env_of(DU), None), [f], {})
            got = tuple(bool(g) for g in got)
        except PyRaise as e:
            got = e.name
        if got != want:
            rep.violation('R7', '_func_out_type', 'signature %s is '
                          'classified as %r (has_out, out_optional), must '
                          'be %r' % (desc, got, want), DU, fn.lineno)
        else:
            rep.holds('R7', '_func_out_type:' + desc, repr(want))
    rep.floor('R7', 'signature classes', n, 22)


# ---------------------------------------------------------------------------
# R4: sampling of callables (sampling_function / _make_dual_use_func /
# point_collocation) on small meshes and point arrays with symbolic
# coordinates; NumPy's shape semantics are those of NumPy (namodel)
# ---------------------------------------------------------------------------
from ..namodel import (NA, NAHooks, NAInterp, DT, symbols, filled, na_of,
                       as_dt)

IU = Rat.var('I')


class UserFunc(object):
    """A user callable with a given signature style computing a known
    function of the coordinates."""

    def __init__(self, name, style, formula, ndim):
        self.name, self.style, self.formula, self.ndim = \
            name, style, formula, ndim
        self.calls = 0


class SamplH(NAHooks):
    def __init__(self):
        self.funcs = {}

    def user(self, I, uf):
        H = self

        def call(x, *a, **k):
            uf.calls += 1
            out = k.pop('out', a[0] if a else None)
            if a[1:] or (a and 'out' in k):
                raise PyRaise('TypeError')
            if uf.style == 'oop' and out is not None:
                raise PyRaise('TypeError')
            if uf.style == 'ip' and out is None:
                raise PyRaise('TypeError')
            par = k.pop('c', None)
            if k:
                raise PyRaise('TypeError')
            res = uf.formula(I, H, x, par)
            if out is None:
                return res
            H.store(I, out, slice(None), res)
            return None if uf.style == 'ip' else out
        b = Builtin('user:' + uf.name, call)
        self.funcs[id(b)] = uf
        b.uf = uf
        return b

    def np_func(self, I, name):
        if name == 'vectorize':
            H = self

            def vectorize(f, *a, **k):
                def vcall(*arrs, **kw):
                    import numpy as _np
                    ns = [na_of(x) for x in arrs]
                    g = lambda *pt: I.call(f, list(pt), dict(kw))
                    try:
                        res = _np.frompyfunc(g, len(ns), 1)(
                            *[n.a for n in ns])
                    except ValueError:
                        raise PyRaise('ValueError')
                    return NA(res, DT('float64')) if isinstance(
                        res, _np.ndarray) else res
                return Builtin('vectorized', vcall)
            return vectorize
        return NAHooks.np_func(self, I, name)

    def on_name(self, interp, name):
        if name == 'partial':
            def partial(f, *pre, **pk):
                def call(*a, **k):
                    kk = dict(pk)
                    kk.update(k)
                    return interp.call(f, list(pre) + list(a), kk)
                return Builtin('partial', call)
            return Builtin('partial', partial)
        if name == 'writable_array':
            return Builtin('writable_array', lambda a, **k: a)
        if name == 'callable':
            return Builtin('callable', lambda f: isinstance(
                f, (Builtin, Func, Inst)))
        return NotImplemented

    def on_call(self, interp, f, args, kwargs, node):
        if isinstance(f, Func) and f.name == '_func_out_type':
            uf = getattr(args[0], 'uf', None)
            if isinstance(args[0], Inst) and args[0].ci.name == \
                    '_NumpyVectorizeWrapper':
                return (True, True)     # __call__(self, x, out=None, **kw)
            if uf is None:
                raise Undecided('_func_out_type of %r' % (args[0],))
            return {'oop': (False, False), 'ip': (True, False),
                    'dual': (True, True)}[uf.style]
        if isinstance(f, Func) and f.name in ('is_real_dtype',
                                              'is_real_floating_dtype'):
            return as_dt(args[0]).d.kind in 'biuf'
        if isinstance(f, Func) and f.name == 'dtype_repr':
            return 'dtype'
        return NotImplemented

    def on_getattr(self, interp, obj, name):
        if isinstance(obj, Rec) and name in obj.attrs:
            return obj.attrs[name]
        if isinstance(obj, Rec):
            raise PyRaise('AttributeError')
        return NAHooks.on_getattr(self, interp, obj, name)


def point_formula(fname):
    """The same functions written for a single point (array of the
    coordinates), as handed to the vectorize decorator."""
    def f(I, H, x, c):
        a = x.a[0]
        b = x.a[1] if x.a.shape[0] > 1 else None
        return to_rat(_expect(fname, to_rat(a), None if b is None
                              else to_rat(b), c))
    return f


def _coord(x, i):
    return x[i] if isinstance(x, tuple) else NA(x.a[i], x.dt)


def _formulas():
    def full(I, H, x, c):
        return H.binop_na(I, ast.Add, _coord(x, 0), H.binop_na(
            I, ast.Mult, 2, _coord(x, 1)))

    def partial0(I, H, x, c):
        return H.binop_na(I, ast.Mult, 3, _coord(x, 0))

    def const(I, H, x, c):
        return 5

    def cconst(I, H, x, c):
        # a complex constant, for complex output dtypes
        return 2 + 3 * IU

    def param(I, H, x, c):
        return H.binop_na(I, ast.Add, _coord(x, 1), 0 if c is None else c)

    def cplx(I, H, x, c):
        r = H.binop_na(I, ast.Add, _coord(x, 0), H.binop_na(
            I, ast.Mult, IU, _coord(x, 1)))
        r.dt = DT('complex128')
        return r

    def one_d(I, H, x, c):
        # 1-d functions are written on x itself (`x ** 2`)
        if isinstance(x, tuple):
            raise PyRaise('TypeError')
        return H.binop_na(I, ast.Mult, x, x)
    def one_d_idx(I, H, x, c):
        # ... or on x[0] (works for mesh grids and (1, n) point arrays)
        x0 = _coord(x, 0)
        return H.binop_na(I, ast.Mult, x0, x0)
    return {'full': full, 'partial0': partial0, 'const': const,
            'cconst': cconst,
            'param': param, 'cplx': cplx, 'one_d': one_d,
            'one_d_idx': one_d_idx}


def _expect(name, a, b, c=None):
    return {'full': lambda: a + 2 * b, 'partial0': lambda: 3 * a,
            'const': lambda: Rat.const(5),
            'cconst': lambda: 2 + 3 * IU,
            'param': lambda: b + (0 if c is None else c),
            'cplx': lambda: a + IU * b, 'one_d': lambda: a * a,
            'one_d_idx': lambda: a * a}[name]()


def sample_once(model, fname, style, conv, with_out, kw=None):
    """Returns (got NA | scalar, want dict index->Rat, shape)."""
    import numpy as _np
    F = _formulas()
    ndim = 1 if fname.startswith('one_d') else 2
    dtn = 'complex128' if fname in ('cplx', 'cconst') else 'float64'
    H = SamplH()
    I = NAInterp(model, {}, H)
    if style == 'vectorized':
        uf = UserFunc(fname, 'oop', point_formula(fname), ndim)
        f = I.instantiate(model.get('_NumpyVectorizeWrapper'),
                          [H.user(I, uf)], {})
    else:
        uf = UserFunc(fname, style, F[fname], ndim)
        f = H.user(I, uf)
    dom = Rec('IntervalProd', ndim=ndim,
              contains_all=Builtin('contains_all', lambda x: True))
    n = 3
    A = [Rat.var('a%d' % i) for i in range(n)]
    B = [Rat.var('b%d' % i) for i in range(n)]
    if conv == 'mesh':
        if ndim == 2:
            x = (NA(_np.array(A[:2], dtype=object).reshape(2, 1)),
                 NA(_np.array(B[:2], dtype=object).reshape(1, 2)))
            shape = (2, 2)
            want = {(i, j): _expect(fname, A[i], B[j],
                                    (kw or {}).get('c'))
                    for i in range(2) for j in range(2)}
        else:
            x = (NA(_np.array(A, dtype=object)),)
            shape = (n,)
            want = {(i,): _expect(fname, A[i], None) for i in range(n)}
    else:
        if ndim == 2:
            x = NA(_np.array([A, B], dtype=object))
            want = {(i,): _expect(fname, A[i], B[i], (kw or {}).get('c'))
                    for i in range(n)}
        else:
            x = NA(_np.array(A, dtype=object))
            if fname == 'one_d_idx':
                x = NA(x.a.reshape(1, n))
            want = {(i,): _expect(fname, A[i], None) for i in range(n)}
        shape = (n,)
    sf = model.ctx.func(DU, 'sampling_function')
    pc = model.ctx.func(DU, 'point_collocation')
    env = I.env_of(DU)
    wrapped = I.call_func(Func(sf, env, None), [f, dom],
                          {'out_dtype': DT(dtn)})
    kwargs = dict(kw or {})
    out = None
    if with_out:
        out = filled(shape, Rat.var('garbage'), dtn)
        kwargs['out'] = out
    res = I.call_func(Func(pc, env, None), [wrapped, x], kwargs)
    uf.shared_result = False
    if not with_out:
        # a second out-of-place evaluation of the same wrapper at other
        # points of the same shape: the first result must be an array of its
        # own (its values are compared by the caller after this call)
        if isinstance(x, tuple):
            x2 = tuple(NA(v.a[tuple(slice(None, None, -1)
                                    for _ in v.a.shape)].copy(), v.dt)
                       for v in x)
        else:
            x2 = NA(x.a[..., ::-1].copy(), x.dt)
        res2 = I.call_func(Func(pc, env, None), [wrapped, x2], dict(kw or {}))
        if isinstance(res, NA) and isinstance(res2, NA) and (
                res2 is res or _np.shares_memory(res.a, res2.a)):
            uf.shared_result = True
    return res, want, shape, out, uf


def element_ownership(rep, model):
    """R4c: `DiscretizedSpace.element(callable)` hands the tensor space an
    array that holds the function values and shares no memory with the
    space's own mesh arrays (a callable may return its argument, or a view of
    it): otherwise writing into the new element changes the grid and every
    later sampling."""
    import numpy as _np
    ci = model.get('DiscretizedSpace')
    if ci is None or 'element' not in ci.methods:
        raise AnalysisError('anchor vanished: DiscretizedSpace.element')
    DSP = 'odl/discr/discr_space.py'
    fn = ci.methods['element']
    A = [Rat.var('a%d' % i) for i in range(3)]
    B = [Rat.var('b%d' % i) for i in range(2)]

    def ident1(I, H, x, c):
        return x[0] if isinstance(x, tuple) else x

    def ident1_view(I, H, x, c):
        x0 = x[0] if isinstance(x, tuple) else x
        return NA(x0.a[:], x0.dt)

    def coord0(I, H, x, c):
        return _coord(x, 0)

    def square1(I, H, x, c):
        x0 = x[0] if isinstance(x, tuple) else x
        return H.binop_na(I, ast.Mult, x0, x0)
    cases = [('1-d, lambda x: x', 1, ident1, lambda i, j: A[i]),
             ('1-d, a view of x', 1, ident1_view, lambda i, j: A[i]),
             ('1-d, lambda x: x * x', 1, square1, lambda i, j: A[i] * A[i]),
             ('2-d, lambda x: x[0]', 2, coord0, lambda i, j: A[i])]
    n = 0
    for tag, ndim, formula, expect in cases:
        n += 1
        cons = 'DiscretizedSpace.element[%s]' % tag
        captured = []

        class EH(SamplH):
            def on_getattr(self, interp, obj, name):
                if isinstance(obj, Inst) and obj.ci.name == \
                        'DiscretizedSpace':
                    if name == 'meshgrid':
                        return mesh
                    if name == 'domain':
                        return Rec('IntervalProd', ndim=ndim,
                                   contains_all=Builtin(
                                       'contains_all', lambda x: True))
                    if name == 'dtype':
                        return DT('float64')
                    if name == 'tspace':
                        def element(arr=None, order=None, **k):
                            captured.append(arr)
                            return Rec('tensor', data=arr)
                        return Rec('tspace', element=Builtin(
                            'tspace.element', element))
                    if name == 'element_type':
                        return Builtin('element_type', lambda sp, t: Rec(
                            'discr-element', tensor=t))
                if isinstance(obj, Rec) and name in obj.attrs:
                    return obj.attrs[name]
                return SamplH.on_getattr(self, interp, obj, name)

        class EI(NAInterp):
            def contains(self, cont, item, node):
                if isinstance(cont, (Inst, Rec)):
                    return False
                return NAInterp.contains(self, cont, item, node)
        try:
            H = EH()
            I = EI(model, {}, H)
            if ndim == 1:
                mesh = (NA(_np.array(A, dtype=object)),)
                shape = (3,)
            else:
                mesh = (NA(_np.array(A, dtype=object).reshape(3, 1)),
                        NA(_np.array(B, dtype=object).reshape(1, 2)))
                shape = (3, 2)
            uf = UserFunc('ident', 'oop', formula, ndim)
            f = H.user(I, uf)
            I.call_func(Func(fn, I.env_of(DSP), ci), [Inst(ci), f], {})
            probs = []
            if len(captured) != 1 or not isinstance(captured[0], NA):
                raise Undecided('tensor space received %r' % (captured,))
            arr = captured[0]
            if arr.a.shape != shape:
                probs.append('array of shape %r for a space of shape %r'
                             % (arr.a.shape, shape))
            else:
                for idx in _np.ndindex(*shape):
                    w = expect(idx[0], idx[1] if ndim == 2 else None)
                    g = arr.a[idx]
                    if g is None or not (to_rat(g) - w).is_zero():
                        probs.append('entry %r is %r, the function value is '
                                     '%r' % (idx, g, w))
                        break
            for k, m in enumerate(mesh):
                if _np.shares_memory(arr.a, m.a):
                    probs.append('the element data share memory with the '
                                 'mesh array of axis %d: writing into the '
                                 'element changes the grid of the space' % k)
            if probs:
                rep.violation('R4c', cons, '; '.join(probs), DSP, fn.lineno)
            else:
                rep.holds('R4c', cons, 'function values in memory of their '
                          'own')
        except Undecided as e:
            rep.undecided('R4c', cons, str(e), DSP, fn.lineno)
        except PyRaise as e:
            rep.violation('R4c', cons, 'raises %s at `%s`' % (
                e.name, ast.unparse(e.node)[:70] if e.node is not None
                else '?'), DSP, fn.lineno)
    rep.floor('R4c', 'element ownership cases', n, 4)


def sampling(rep, model, thorough):
    n = 0
    for fname in ('full', 'partial0', 'const', 'cconst', 'param', 'cplx',
                  'one_d', 'one_d_idx'):
        for style in ('oop', 'ip', 'dual', 'vectorized'):
            for conv in ('mesh', 'array'):
                for with_out in (False, True):
                    kw = {'c': Rat.var('c')} if fname == 'param' else None
                    cons = 'sampling[%s,%s,%s%s]' % (
                        fname, style, conv, ',out' if with_out else '')
                    n += 1
                    try:
                        res, want, shape, out, uf = sample_once(
                            model, fname, style, conv, with_out, kw)
                    except PyRaise as e:
                        rep.violation('R4', cons, 'raises %s at `%s`' % (
                            e.name, ast.unparse(e.node)[:70]
                            if e.node is not None else '?'), DU,
                            getattr(e.node, 'lineno', None))
                        continue
                    except Undecided as e:
                        rep.undecided('R4', cons, str(e), DU)
                        continue
                    probs = []
                    if with_out and res is not out:
                        probs.append('does not return the given `out`')
                    if getattr(uf, 'shared_result', False):
                        probs.append('two out-of-place evaluations of one '
                                     'wrapper return arrays sharing memory')
                    if not isinstance(res, NA):
                        probs.append('returns %r' % (res,))
                    elif res.a.shape != shape:
                        probs.append('result shape %r, expected %r'
                                     % (res.a.shape, shape))
                    else:
                        for idx, w in want.items():
                            g = res.a[idx]
                            if g is None or not (to_rat(g) - w).is_zero():
                                probs.append('entry %r is %r, the function '
                                             'value there is %r'
                                             % (idx, g, w))
                                break
                        wdt = 'complex128' if fname in ('cplx', 'cconst') \
                            else 'float64'
                        if res.dt != DT(wdt):
                            probs.append('dtype %r, expected %s'
                                         % (res.dt, wdt))
                    if probs:
                        rep.violation('R4', cons, '; '.join(probs), DU)
                    else:
                        rep.holds('R4', cons, 'function values at the '
                                  'points, shape %r' % (shape,))
    rep.floor('R4', 'sampling configurations', n, 112)
