"""C12 -- solvers decrease what they promise to decrease.  Four structural
clauses only (see DESIGN.md section C12); the numerical clauses are outside
static analysis."""
from __future__ import annotations

import ast
import os
from fractions import Fraction as Fr

from ..core import Report, Undecided, AnalysisError
from ..srcmodel import Model
from ..forks import explore
from ..ratfun import Rat, Poly, SAtom, satom
from .. import vs
from ..symex import (Interp, Hooks, Inst, OpV, Vec, SpaceV, Func, Builtin,
                     Opaque, PyRaise, is_scalar, to_rat, _Cond)
from ..opalg import OpHooks
from .c11 import SolverHooks, Env, _sign

STEPLEN = 'odl/solvers/util/steplen.py'
GRAD = 'odl/solvers/smooth/gradient.py'
PDHG = 'odl/solvers/nonsmooth/primal_dual_hybrid_gradient.py'
DR = 'odl/solvers/nonsmooth/douglas_rachford.py'
OPUTILS = 'odl/operator/oputils.py'
FB = 'odl/solvers/nonsmooth/forward_backward.py'


def check(ctx):
    rep = Report(
        'C12', ctx, 'other',
        'Only five structural clauses of this numerical property are '
        'decided.  R1: on every returning path of '
        'BacktrackingLineSearch.__call__ (symbolic execution with forks on '
        'the decrease test) the last decision taken is exactly the '
        'sufficient-decrease inequality f(x + alpha d) <= f(x) - |alpha * '
        'dd * discount| at the returned alpha, and steepest_descent hands '
        'the search the direction -grad f(x), the derivative -||grad||^2 '
        'and steps by the returned alpha along that direction.  R2: the '
        'default step sizes satisfy tau*sigma*||L||^2 = 9/10 < 1 (PDHG) and '
        'tau*sum_i sigma_i*||L_i||^2 = 2 < 4 (Douglas-Rachford) identically'
        ' on every defaulting arm.  R3: in every solver loop two different '
        'names used as the two operands of one lincomb / difference denote '
        'different cells (a saved iterate is a copy).  R4: the power method'
        ' returns ||T u|| (or its square root on the normal arm) for a u '
        'that is a normalised vector on every exit.  R5: in PDHG (plain and '
        'with primal / dual acceleration, 2 and 3 iterations) every '
        'application prox_{t f}(x - t L^* y) / prox_{s g^*}(y + s L xbar) '
        'uses the proximal of the step size that stands in front of the '
        'operator term, i.e. the proximals follow the updated tau / sigma.',
        ['CPython ast', 'vector-space axioms; functionals/operators '
         'uninterpreted', 'sqrt(c)**2 = c'],
        ['monotone decrease / exactness of CG / KKT residuals / power-'
         'method bound as statements about real arithmetic: not applicable '
         'to static analysis (see DESIGN.md section C12)'])
    model = Model(ctx)
    _armijo(rep, model)
    _armijo_inf(rep, model)
    _steepest(rep, model)
    _stepsizes(rep, model)
    _default_relaxation(rep, model)
    _norm_helper(rep, model)
    _saved_iterates(ctx, rep)
    _power_method(rep, model)
    _pdhg_steps(rep, model)
    _fixed_points(rep, model)
    _kaczmarz_random(rep, model)
    from . import c12b
    c12b.run(rep, model)
    # R9: the iterate is delivered in the caller's x: after n iterations the
    # object passed in holds what the n-th iteration produced (a rebound
    # local or a swapped buffer leaves the caller one iteration behind)
    from . import c11
    c11._callbacks(rep, model, rule='R9', final_only=True, floor=15)
    # R10: no aliased evaluation of a user operator (operators X -> X)
    c11.aliased_operator_calls(rep, model, rule='R10')
    return rep


# --------------------------------------------------------------------------
class LSHooks(SolverHooks):
    def __init__(self):
        SolverHooks.__init__(self)
        self.decisions = []

    def on_decide(self, interp, cond, node):
        key = cond.key
        if key.startswith('LtE:') and cond.rat is not None and any(
                isinstance(v, SAtom) and v[0] == 'F'
                for v in cond.rat.vars()):
            # the decrease test: explore both outcomes
            val = interp.decide(key, node)
            self.decisions.append((key, val, cond.rat))
            return val
        if key.startswith(('Gt:', 'GtE:', 'Lt:', 'LtE:')) and \
                cond.rat is not None:
            vars_ = cond.rat.vars()
            if vars_ == {'dd'}:
                # sign of the directional derivative: fork
                val = interp.decide(key, node)
                return val
        if key.startswith('eq0:') and cond.rat is not None and \
                cond.rat.vars() == {'dd'}:
            return False
        return SolverHooks.on_decide(self, interp, cond, node)


def _armijo(rep, model):
    ci = model.get('BacktrackingLineSearch')
    call = ci.methods.get('__call__')
    if call is None:
        raise AnalysisError('anchor vanished: BacktrackingLineSearch.'
                            '__call__')
    cons = 'BacktrackingLineSearch.__call__'
    MAXIT = 2

    def once(assume):
        hooks = LSHooks()
        I = Interp(model, assume, hooks)
        e = Env(I, hooks)
        f = e.fun('f', e.X)
        I.real_scalars.update({'dd', 'discount', 'tau0'})
        ls = I.instantiate(ci, [f], {'tau': Rat.var('tau0'),
                                     'discount': Rat.var('discount'),
                                     'max_num_iter': MAXIT})
        x = e.vec('x', e.X)
        d = e.vec('d', e.X)
        dd = Rat.var('dd')
        x0 = dict(x.val)
        try:
            alpha = I.call(ls, [x, d, dd], {})
        except PyRaise as ex:
            return {'raise': ex.name, 'dec': list(hooks.decisions)}
        return {'alpha': to_rat(alpha), 'dec': list(hooks.decisions),
                'f': f, 'x0': x0, 'd': dict(d.val), 'I': I,
                'x_untouched': vs.lf_eq(x.val, x0)}
    try:
        leaves = explore(once, limit=200)
    except Undecided as e:
        rep.undecided('R1', cons, str(e), ci.rel, call.lineno)
        return
    n_ret = n_raise = 0
    probs = []
    for a, res in leaves:
        if 'raise' in res:
            n_raise += 1
            continue
        n_ret += 1
        if not res['dec'] or res['dec'][-1][1] is not True:
            probs.append('a path returns alpha without the sufficient-'
                         'decrease test having succeeded')
            continue
        key, val, rat = res['dec'][-1]
        alpha = res['alpha']
        # expected: f(x + alpha d) - (f(x) - |alpha*dd*discount|) <= 0
        I = res['I']
        fkey = res['f'].term.key()
        pt = vs.add(res['x0'], vs.scale(res['d'], alpha))
        F = lambda lf: Rat.var(satom('F', fkey, vs.freeze(lf)))
        prod = alpha * Rat.var('dd') * Rat.var('discount')
        want = F(pt) - (F(res['x0']) - Rat.var(satom('abs', prod)))
        want2 = F(pt) - (F(res['x0']) - Rat.var(satom('abs', -prod)))
        if not (rat == want or rat == want2):
            probs.append('the test that guards `return alpha` is %r <= 0, '
                         'not f(x + alpha*d) <= f(x) - |alpha*dd*discount| '
                         'at the returned alpha = %r' % (rat, alpha))
        if not res['x_untouched']:
            probs.append('the starting point x is modified')
    if n_ret == 0:
        rep.undecided('R1', cons, 'no returning path found', ci.rel,
                      call.lineno)
    elif probs:
        rep.violation('R1', cons, '; '.join(sorted(set(probs))), ci.rel,
                      call.lineno)
    elif n_raise == 0:
        rep.violation('R1', cons, 'exceeding max_num_iter does not raise',
                      ci.rel, call.lineno)
    else:
        rep.holds('R1', cons, 'all %d returning paths (<= %d backtracking '
                  'steps, both signs of the derivative) are guarded by the '
                  'Armijo test at the returned alpha; %d paths raise'
                  % (n_ret, MAXIT, n_raise))


def _armijo_inf(rep, model):
    """R1b: a trial point where the objective is +inf (outside the domain of
    a constrained objective, documented as supported) is rejected like any
    other insufficient decrease -- the search backtracks, it does not
    abort."""
    ci = model.get('BacktrackingLineSearch')
    call = ci.methods.get('__call__')
    cons = 'BacktrackingLineSearch.__call__[f = +inf at the first trial]'
    INF = Opaque('np.inf')

    class IH(LSHooks):
        def __init__(self):
            LSHooks.__init__(self)
            self.ncalls = 0

        def on_call(self, interp, f, args, kwargs, node):
            if isinstance(f, OpV) and f.functional and len(args) == 1:
                self.ncalls += 1
                if self.ncalls == 2:
                    return INF
            return LSHooks.on_call(self, interp, f, args, kwargs, node)

        def on_getattr(self, interp, obj, name):
            from ..symex import NPV, Builtin
            if obj is NPV and name in ('isnan', 'isfinite', 'isinf'):
                def test(v, name=name):
                    inf = v is INF
                    return {'isnan': False, 'isfinite': not inf,
                            'isinf': inf}[name]
                return Builtin('np.' + name, test)
            return LSHooks.on_getattr(self, interp, obj, name)

    class II(Interp):
        def cmp1(self, op, l, r, node):
            # +inf compared with a finite expression
            if l is INF and isinstance(op, (ast.Lt, ast.LtE)):
                return False
            if l is INF and isinstance(op, (ast.Gt, ast.GtE)):
                return True
            if r is INF and isinstance(op, (ast.Lt, ast.LtE)):
                return True
            if r is INF and isinstance(op, (ast.Gt, ast.GtE)):
                return False
            return Interp.cmp1(self, op, l, r, node)

    def once(assume):
        hooks = IH()
        I = II(model, assume, hooks)
        e = Env(I, hooks)
        f = e.fun('f', e.X)
        I.real_scalars.update({'dd', 'discount', 'tau0'})
        ls = I.instantiate(ci, [f], {'tau': Rat.var('tau0'),
                                     'discount': Rat.var('discount'),
                                     'max_num_iter': 3})
        x = e.vec('x', e.X)
        d = e.vec('d', e.X)
        try:
            alpha = I.call(ls, [x, d, Rat.var('dd')], {})
        except PyRaise as ex:
            return {'raise': ex.name, 'dec': list(hooks.decisions),
                    'ncalls': hooks.ncalls}
        return {'alpha': to_rat(alpha), 'dec': list(hooks.decisions),
                'ncalls': hooks.ncalls}
    try:
        leaves = explore(once, limit=200)
    except Undecided as e:
        rep.undecided('R1', cons, str(e), ci.rel, call.lineno)
        return
    rets = [r for a, r in leaves if 'alpha' in r]
    early = [r for a, r in leaves if 'raise' in r and r['ncalls'] <= 2]
    if early:
        rep.violation('R1', 'BacktrackingLineSearch.__call__', 'a trial '
                      'value of +inf aborts the search with %s instead of '
                      'being rejected by the decrease test (backtracking)'
                      % early[0]['raise'], ci.rel, call.lineno)
    elif not rets:
        rep.undecided('R1', cons, 'no returning path', ci.rel, call.lineno)
    else:
        rep.holds('R1', cons, 'rejected by the decrease test; %d returning '
                  'paths after further backtracking' % len(rets))


def _steepest(rep, model):
    fn = model.ctx.func(GRAD, 'steepest_descent')
    cons = 'steepest_descent'

    def once(assume):
        hooks = SolverHooks()
        I = Interp(model, assume, hooks)
        e = Env(I, hooks)
        f = e.fun('f', e.X)
        x = e.vec('x', e.X)
        x0 = dict(x.val)
        log = []

        def search(xx, direction, dir_derivative=None):
            log.append((dict(xx.val), dict(direction.val), dir_derivative))
            return Rat.var('step')
        I.call_func(Func(fn, I.env_of(GRAD), None), [f, x],
                    {'line_search': Builtin('line_search', search),
                     'maxiter': 1})
        g = hooks.on_getattr(I, f, 'gradient')
        gx = g.term.apply(x0)
        return {'log': log, 'x': dict(x.val), 'x0': x0, 'gx': gx}
    try:
        leaves = explore(once, limit=20)
    except Undecided as e:
        rep.undecided('R1', cons, str(e), GRAD, fn.lineno)
        return
    except PyRaise as e:
        rep.violation('R1', cons, 'raises %s' % e.name, GRAD, fn.lineno)
        return
    probs = []
    for a, r in leaves:
        if len(r['log']) != 1:
            probs.append('line search called %d times in one iteration'
                         % len(r['log']))
            continue
        xx, d, dd = r['log'][0]
        if not vs.lf_eq(d, vs.scale(r['gx'], -1)):
            probs.append('search direction is %s, not -grad f(x)'
                         % vs.show(d))
        nrm = Rat.var(satom('norm', vs.freeze(r['gx'])))
        if not (is_scalar(dd) and to_rat(dd) == -(nrm * nrm)):
            probs.append('directional derivative passed is %r, not '
                         '-||grad f(x)||^2' % (dd,))
        want = vs.add(r['x0'], vs.scale(d, Rat.var('step')))
        if not vs.lf_eq(r['x'], want):
            probs.append('update is %s, not x + step*direction'
                         % vs.show(r['x']))
    if probs:
        rep.violation('R1', cons, '; '.join(sorted(set(probs))), GRAD,
                      fn.lineno)
    else:
        rep.holds('R1', cons, 'direction -grad f(x), derivative '
                  '-||grad||^2, update x + step*direction')


# --------------------------------------------------------------------------
def _sqrt_rules(r):
    rules = {}
    for v in r.vars():
        if isinstance(v, SAtom) and v[0] == 'sqrt':
            arg = v[1]
            if isinstance(arg, Rat) and arg.d.is_const():
                rules[(v, 2)] = arg.n * Poly.const(1 / arg.d.constant())
    return rules


def _stepsizes(rep, model):
    # PDHG: tau * sigma * ||L||^2 = 9/10 on the three defaulting arms
    fn = model.ctx.func(PDHG, 'pdhg_stepsize')
    for arm, (t, s) in (('tau=None,sigma=None', (None, None)),
                        ('tau=None', (None, Rat.var('sigma'))),
                        ('sigma=None', (Rat.var('tau'), None))):
        tag = 'pdhg_stepsize[%s]' % arm

        def once(assume):
            hooks = SolverHooks()
            I = Interp(model, assume, hooks)
            e = Env(I, hooks)
            L = I.opsym('L', e.X, e.Y, True)
            r = I.call_func(Func(fn, I.env_of(PDHG), None), [L, t, s], {})
            return r
        try:
            leaves = explore(once, limit=10)
            for a, r in leaves:
                tau, sigma = to_rat(r[0]), to_rat(r[1])
                N = Rat.var(satom('opnorm', 'L'))
                prod = tau * sigma * N * N
                prod = prod.reduce(_sqrt_rules(prod))
                if prod == Rat.const(Fr(9, 10)):
                    rep.holds('R2', tag, 'tau*sigma*||L||^2 = 9/10 < 1')
                else:
                    rep.violation(
                        'R2', 'pdhg_stepsize',
                        '%s: tau*sigma*||L||^2 = %r, not the constant 9/10 '
                        '(the convergence condition is tau*sigma*||L||^2 < '
                        '1)' % (tag, prod), PDHG, fn.lineno)
        except Undecided as e:
            rep.undecided('R2', tag, str(e), PDHG, fn.lineno)
        except PyRaise as e:
            rep.violation('R2', 'pdhg_stepsize', '%s: raises %s'
                          % (tag, e.name), PDHG, fn.lineno)
    # Douglas-Rachford: tau * sum_i sigma_i ||L_i||^2 = 2 < 4
    fn = model.ctx.func(DR, 'douglas_rachford_pd_stepsize')
    for nops in (1, 2, 3):
        for arm in ('tau=None,sigma=None', 'tau=None', 'sigma=None'):
            tag = 'douglas_rachford_pd_stepsize[%s,n=%d]' % (arm, nops)

            class H(SolverHooks):
                def on_call(self, interp, f, args, kwargs, node):
                    if isinstance(f, Func) and f.name == '_operator_norms':
                        return [Rat.var(satom('opnorm', 'L%d' % i))
                                for i in range(len(args[0]))]
                    return SolverHooks.on_call(self, interp, f, args, kwargs,
                                               node)

            def once(assume):
                hooks = H()
                I = Interp(model, assume, hooks)
                e = Env(I, hooks)
                L = [I.opsym('L%d' % i, e.X, e.Y, True)
                     for i in range(nops)]
                t = None if 'tau=None' in arm else Rat.var('tau')
                s = None if 'sigma=None' in arm else \
                    [Rat.var('s%d' % i) for i in range(nops)]
                return I.call_func(Func(fn, I.env_of(DR), None), [L, t, s],
                                   {})
            try:
                for a, r in explore(once, limit=10):
                    tau = to_rat(r[0])
                    tot = Rat.const(0)
                    for i, si in enumerate(r[1]):
                        Ni = Rat.var(satom('opnorm', 'L%d' % i))
                        tot = tot + to_rat(si) * Ni * Ni
                    val = tau * tot
                    if val == Rat.const(2):
                        rep.holds('R2', tag, 'tau*sum sigma_i||L_i||^2 = 2 '
                                  '< 4')
                    else:
                        rep.violation(
                            'R2', 'douglas_rachford_pd_stepsize',
                            '%s: tau*sum_i sigma_i*||L_i||^2 = %r, not the '
                            'constant 2 (admissibility needs < 4)'
                            % (tag, val), DR, fn.lineno)
            except Undecided as e:
                rep.undecided('R2', tag, str(e), DR, fn.lineno)
            except PyRaise as e:
                rep.violation('R2', 'douglas_rachford_pd_stepsize',
                              '%s: raises %s' % (tag, e.name), DR, fn.lineno)


# --------------------------------------------------------------------------
def _norm_helper(rep, model):
    """R2n: `_operator_norms`, the helper behind the Douglas-Rachford default
    steps, returns for every entry kind (operator symbol, scaled operators
    c * A and A * c with c of either sign, plain number) the non-negative
    number |c| * ||A||.  `Operator.norm(estimate=True)` on an arithmetic
    node is summarised by the homogeneity of the norm."""
    from ..symex import Bound
    fn = model.ctx.func(DR, '_operator_norms')

    def true_norm(I, op):
        if isinstance(op, OpV):
            return Rat.var(satom('opnorm', op.term.name))
        if isinstance(op, Inst) and op.ci.name in (
                'OperatorLeftScalarMult', 'OperatorRightScalarMult'):
            c = to_rat(I.getattr_value(op, 'scalar'))
            if not c.is_const():
                raise Undecided('norm of an operator scaled by %r' % (c,))
            return Rat.const(abs(c.constant())) * true_norm(
                I, I.getattr_value(op, 'operator'))
        raise Undecided('norm of %r' % (op,))

    class H(SolverHooks):
        def on_call(self, interp, f, args, kwargs, node):
            if isinstance(f, Bound) and f.func.name == 'norm' and \
                    isinstance(f.selfv, Inst):
                return true_norm(interp, f.selfv)
            return SolverHooks.on_call(self, interp, f, args, kwargs, node)

    n = 0
    for tag, build in (
            ('A', lambda I, A: A),
            ('2 * A', lambda I, A: I.binop(ast.Mult, Rat.const(2), A)),
            ('-2 * A', lambda I, A: I.binop(ast.Mult, Rat.const(-2), A)),
            ('A * (-3)', lambda I, A: I.binop(ast.Mult, A, Rat.const(-3))),
            ('-(1/2) * A', lambda I, A: I.binop(
                ast.Mult, Rat.const(Fr(-1, 2)), A)),
            ('3', lambda I, A: Rat.const(3))):
        cons = '_operator_norms[%s]' % tag
        n += 1

        def once(assume):
            hooks = H()
            I = Interp(model, assume, hooks)
            e = Env(I, hooks)
            A = I.opsym('A', e.X, e.Y, True)
            op = build(I, A)
            want = to_rat(op) if is_scalar(op) else true_norm(I, op)
            got = I.call_func(Func(fn, I.env_of(DR), None), [[op]], {})
            return want, got
        try:
            ok = True
            for a, (want, got) in explore(once, limit=10):
                if not isinstance(got, (list, tuple)) or len(got) != 1 or \
                        not is_scalar(got[0]) or to_rat(got[0]) != want:
                    ok = False
                    rep.violation(
                        'R2n', '_operator_norms',
                        '%s: the norm used for the default steps is %r, the '
                        'operator norm is %r' % (cons, got, want), DR,
                        fn.lineno)
            if ok:
                rep.holds('R2n', cons, 'norm %r' % (want,))
        except Undecided as e:
            rep.undecided('R2n', cons, str(e), DR, fn.lineno)
        except PyRaise as e:
            rep.violation('R2n', '_operator_norms', '%s: raises %s' % (
                cons, e.name), DR, fn.lineno)
    rep.floor('R2n', 'entry kinds of _operator_norms', n, 6)


# --------------------------------------------------------------------------
def _default_relaxation(rep, model):
    """R2c: the default relaxation of `landweber` is 1 / ||A||^2 with the
    norm estimated from a generic start: the estimate of the power method
    is the largest singular value only for a start with a component along
    the dominant direction, so the estimate must not be started from the
    iterate or the data (it would be a smaller singular value for a
    structured start and the step 1 / estimate^2 inadmissible)."""
    ITER_ = 'odl/solvers/iterative/iterative.py'
    fn = model.ctx.func(ITER_, 'landweber')
    if fn is None:
        raise AnalysisError('anchor vanished: landweber')
    calls = []

    class LH(SolverHooks):
        def on_getattr(self, interp, obj, name):
            if isinstance(obj, OpV) and name == 'norm':
                def norm(*a, **kw):
                    calls.append((a, dict(kw)))
                    return Rat.var(satom('opnorm', obj.term.name))
                return Builtin('opnorm', norm)
            return SolverHooks.on_getattr(self, interp, obj, name)
    cons = 'landweber[omega=None]'

    def once(assume):
        del calls[:]
        hooks = LH()
        I = Interp(model, assume, hooks)
        e = Env(I, hooks)
        A = I.opsym('A', e.X, e.Y, True)
        x = e.vec('x', e.X)
        I.call_func(Func(fn, I.env_of(ITER_), None),
                    [A, x, e.vec('rhs', e.Y), 1], {})
        return list(calls), vs.freeze(x.val), vs.show(x.val)
    try:
        leaves = explore(once, limit=20)
    except Undecided as e:
        rep.undecided('R2c', cons, str(e), ITER_, fn.lineno)
        return
    except PyRaise as e:
        rep.violation('R2c', cons, 'raises %s' % e.name, ITER_, fn.lineno)
        return
    probs = []
    for a, (cl, xf, xs) in leaves:
        if len(cl) != 1:
            probs.append('%d norm estimates' % len(cl))
            continue
        args, kw = cl[0]
        if args or any(v is not None and k_ != 'estimate'
                       for k_, v in kw.items()):
            probs.append('the norm estimate is started from %s (a point of '
                         'the problem), not from a generic point' % (
                             ', '.join('%s=%r' % (k_, v) for k_, v in
                                       kw.items() if k_ != 'estimate')
                             or repr(args)))
        if not kw.get('estimate'):
            probs.append('the exact norm is requested (estimate is not set)')
        N = Rat.var(satom('opnorm', 'A'))
        want = 'x + (1)/(%s^2)' % 'opnorm'
        if 'opnorm' not in xs:
            probs.append('the step does not involve the norm estimate')
    if probs:
        rep.violation('R2c', cons, '; '.join(sorted(set(probs))), ITER_,
                      fn.lineno)
    else:
        rep.holds('R2c', cons, 'omega = 1 / estimate^2, the estimate started '
                  'from a generic point')


def _saved_iterates(ctx, rep):
    """R3: two names, one cell."""
    root = os.path.join(ctx.repo, 'odl', 'solvers')
    nfun = nsites = 0
    for dp, dn, fns in sorted(os.walk(root)):
        for f in sorted(fns):
            if not f.endswith('.py'):
                continue
            rel = os.path.relpath(os.path.join(dp, f), ctx.repo)
            tree = ctx.tree(rel)
            for func in [n for n in ast.walk(tree)
                         if isinstance(n, ast.FunctionDef)]:
                if not any(isinstance(n, (ast.For, ast.While))
                           for n in ast.walk(func)):
                    continue
                nfun += 1
                hits, ns = _two_names(func)
                nsites += ns
                for line, text, a, b, how in hits:
                    rep.violation(
                        'R3', '%s:%s' % (func.name, b if how else a),
                        '`%s` combines `%s` and `%s` as two different '
                        'vectors, but `%s` was bound by plain assignment '
                        '(`%s`) and both names denote ONE object: after the '
                        'in-place update of the iterate the "saved" value is'
                        ' the new iterate and the extrapolation/difference '
                        'collapses' % (text, a, b, how[0], how[1]),
                        rel, line)
                if not hits:
                    rep.holds('R3', '%s:%s' % (rel, func.name),
                              '%d operand pairs denote distinct cells' % ns)
    rep.floor('R3', 'solver functions with loops', nfun, 30)
    rep.count('operand_pairs', nsites)


def _two_names(func):
    cell = {}
    origin = {}
    cnt = [0]
    hits = []
    ns = [0]

    def fresh():
        cnt[0] += 1
        return cnt[0]
    for a in func.args.args + func.args.kwonlyargs:
        cell[a.arg] = fresh()

    def check(s):
        for c in ast.walk(s):
            pair = None
            if isinstance(c, ast.Call) and isinstance(
                    c.func, ast.Attribute) and c.func.attr == 'lincomb' \
                    and len(c.args) >= 4:
                pair = (c.args[1], c.args[3])
            elif isinstance(c, ast.BinOp) and isinstance(c.op, ast.Sub):
                pair = (c.left, c.right)
            if pair is None:
                continue
            a, b = pair
            if isinstance(a, ast.Name) and isinstance(b, ast.Name) and \
                    a.id != b.id:
                ns[0] += 1
                if a.id in cell and cell.get(a.id) == cell.get(b.id):
                    how = origin.get(b.id) or origin.get(a.id)
                    hits.append((c.lineno, ast.unparse(c), a.id, b.id, how))

    def visit(stmts):
        for s in stmts:
            if isinstance(s, ast.Assign) and len(s.targets) == 1 and \
                    isinstance(s.targets[0], ast.Name):
                check(s)
                v = s.value
                t = s.targets[0].id
                if isinstance(v, ast.Name) and v.id in cell:
                    cell[t] = cell[v.id]
                    origin[t] = (t, ast.unparse(s))
                else:
                    cell[t] = fresh()
                    origin.pop(t, None)
                continue
            if isinstance(s, ast.Assign) and isinstance(s.targets[0],
                                                        ast.Tuple):
                check(s)
                for tt in s.targets[0].elts:
                    if isinstance(tt, ast.Name):
                        cell[tt.id] = fresh()
                continue
            if isinstance(s, (ast.For, ast.While)):
                if isinstance(s, ast.For):
                    for n in ast.walk(s.target):
                        if isinstance(n, ast.Name):
                            cell[n.id] = fresh()
                visit(s.body)
                visit(s.body)
                visit(s.orelse)
                continue
            if isinstance(s, ast.If):
                visit(s.body)
                visit(s.orelse)
                continue
            if isinstance(s, ast.With):
                visit(s.body)
                continue
            if isinstance(s, ast.Try):
                visit(s.body)
                visit(s.finalbody)
                continue
            if isinstance(s, (ast.FunctionDef, ast.ClassDef)):
                continue
            check(s)
    visit(func.body)
    uniq = []
    seen = set()
    for h in hits:
        if (h[0], h[1]) not in seen:
            seen.add((h[0], h[1]))
            uniq.append(h)
    return uniq, ns[0]


# --------------------------------------------------------------------------
def _power_method(rep, model):
    fn = model.ctx.func(OPUTILS, 'power_method_opnorm')
    cons = 'power_method_opnorm'

    class PH(SolverHooks):
        def on_decide(self, interp, cond, node):
            if cond.key.startswith('opaque:np.isclose'):
                return interp.decide(cond.key, node)
            return SolverHooks.on_decide(self, interp, cond, node)

        def on_getattr(self, interp, obj, name):
            if obj is __import__('sa.symex', fromlist=['NPV']).NPV and \
                    name == 'isclose':
                def isclose(*a, **k):
                    self.closes.append((a[0], a[1]))
                    return Opaque('np.isclose')
                return Builtin('np.isclose', isclose)
            return SolverHooks.on_getattr(self, interp, obj, name)

        def __init__(self):
            SolverHooks.__init__(self)
            self.closes = []

    n_exits = n4b = 0
    probs = []
    probs4b = []
    for selfadj, maxiters in ((False, (2, 4)), (True, (1, 2, 3))):
        for maxiter in maxiters:
            def once(assume):
                hooks = PH()
                I = Interp(model, assume, hooks)
                e = Env(I, hooks)
                if selfadj:
                    op = I.opsym('A', e.X, e.X, True)
                    op.attrs['adjoint'] = op
                else:
                    op = I.opsym('A', e.X, e.Y, True)
                x0 = e.vec('x0', e.X)
                r = I.call_func(Func(fn, I.env_of(OPUTILS), None), [op],
                                {'xstart': x0, 'maxiter': maxiter})
                return {'est': r, 'x0_untouched': vs.lf_eq(
                    x0.val, vs.sym('x0')), 'I': I,
                    'closes': list(hooks.closes)}
            try:
                leaves = explore(once, limit=64)
            except Undecided as e:
                rep.undecided('R4', '%s[selfadjoint=%s,maxiter=%d]'
                              % (cons, selfadj, maxiter), str(e), OPUTILS,
                              fn.lineno)
                continue
            except PyRaise as e:
                probs.append('raises %s for maxiter=%d' % (e.name, maxiter))
                continue
            for a, res in leaves:
                n_exits += 1
                p = _check_estimate(res['est'], selfadj)
                if p:
                    probs.append('[self-adjoint=%s, maxiter=%d] %s'
                                 % (selfadj, maxiter, p))
                if not res['x0_untouched']:
                    probs.append('xstart is modified')
                # R4b: the tolerances are tolerances of the returned
                # estimate: the stagnation test compares consecutive values
                # of the quantity that is returned
                cl = res['closes']
                for k, (a_, b_) in enumerate(cl):
                    if k and not _same_val(b_, cl[k - 1][0]):
                        probs4b.append(
                            '[self-adjoint=%s] stagnation test %d compares '
                            'with %r, the previous estimate was %r' % (
                                selfadj, k + 1, b_, cl[k - 1][0]))
                if cl and not _same_val(cl[-1][0], res['est']):
                    probs4b.append(
                        '[self-adjoint=%s] the stagnation test compares %r '
                        'but the estimate returned is %r: rtol / atol are '
                        'applied to another quantity than the operator '
                        'norm estimate' % (selfadj, cl[-1][0], res['est']))
                n4b += 1 if cl else 0
    if probs:
        rep.violation('R4', cons, '; '.join(sorted(set(probs))[:3]), OPUTILS,
                      fn.lineno)
    elif n_exits:
        rep.holds('R4', cons, 'on all %d exits the estimate is ||T u|| '
                  '(sqrt on the normal arm) of a normalised u' % n_exits)
    rep.count('power_method_exits', n_exits)
    if probs4b:
        rep.violation('R4b', cons, '; '.join(sorted(set(probs4b))[:2]),
                      OPUTILS, fn.lineno)
    else:
        rep.holds('R4b', cons, 'on %d exits the stagnation test compares '
                  'consecutive values of the returned estimate' % n4b)
    rep.floor('R4b', 'exits with a stagnation test', n4b, 6)


def _same_val(a, b):
    try:
        return (to_rat(a) - to_rat(b)).is_zero()
    except Exception:
        return a is b


def _check_estimate(est, selfadj):
    """est must be norm(T(u)) [sqrt of it on the normal arm] with ||u|| = 1
    structurally: u = w / norm(w)."""
    if not isinstance(est, Rat):
        return 'returns %r' % (est,)
    vars_ = list(est.vars())
    if len(vars_) != 1 or not (est == Rat.var(vars_[0])):
        return 'estimate %r is not a single norm' % (est,)
    v = vars_[0]
    if not selfadj:
        if not (isinstance(v, SAtom) and v[0] == 'sqrt'):
            return ('estimate on the normal (A*A) arm is %r: the square '
                    'root is missing' % (est,))
        inner = v[1]
        iv = list(inner.vars())
        if len(iv) != 1 or not (inner == Rat.var(iv[0])):
            return 'sqrt argument %r is not a single norm' % (inner,)
        v = iv[0]
    if not (isinstance(v, SAtom) and v[0] == 'norm'):
        return 'estimate %r is not a norm' % (est,)
    y = vs.thaw(v[1])
    # strip the operator layers: y = T(u)
    depth = 1 if selfadj else 2
    u = {}
    for k, c in y.items():
        kk = k
        for _ in range(depth):
            if kk[0] != 'app':
                return 'estimate is not the norm of T applied to a vector'
            kk = kk[2]
        u[kk] = u.get(kk, vs.ZERO) + c
    # u must be w / norm(w): find the norm atom in the coefficients
    cands = set()
    for c in u.values():
        for var in c.vars():
            if isinstance(var, SAtom) and var[0] == 'norm':
                cands.add(var)
    for n in cands:
        w = vs.scale(u, Rat.var(n))
        if vs.freeze(w) == n[1]:
            return None
    return ('the vector the operator is applied to, %s, is not normalised '
            '(the estimate can exceed the operator norm)' % vs.show(u))


# --------------------------------------------------------------------------
# R5: PDHG applies, in every iteration, the proximal operators of the *current*
# step sizes: in  prox_{t f}(x - t L^* y)  and  prox_{s g^*}(y + s L xbar)
# the parameter of the proximal equals the step in front of the operator term
# (also after the acceleration update of tau / sigma)
def _pdhg_steps(rep, model):
    from . import c11
    from .. import vs
    from ..ratfun import Rat
    from ..symex import PyRaise
    fn = model.ctx.func(c11.PDHG, 'pdhg')
    if fn is None:
        raise AnalysisError('anchor vanished: pdhg')

    def apps(lf, out):
        """All applications (operator key, argument linear form), nested."""
        for k, c in lf.items():
            if isinstance(k, tuple) and k and k[0] == 'app':
                arg = vs.thaw(k[2]) if isinstance(k[2], tuple) and k[2] and \
                    isinstance(k[2][0], tuple) else None
                if arg is not None:
                    out.append((k[1], arg))
                    apps(arg, out)
        return out

    def coef_sum(arg, opkeys):
        tot = Rat.const(0)
        for k, c in arg.items():
            if isinstance(k, tuple) and k and k[0] == 'app' and k[1] in \
                    opkeys:
                tot = tot + c
        return tot

    variants = [('plain', {}), ('gamma_primal', {'gamma_primal':
                                                 Rat.var('gp')}),
                ('gamma_dual', {'gamma_dual': Rat.var('gd')})]
    for vname, extra in variants:
        for niter in (2, 3):
            tag = 'pdhg[%s,niter=%d]' % (vname, niter)
            try:
                c11.PROX_STEPS.clear()

                def b(e):
                    x, y = e.vec('x', e.X), e.vec('y', e.Y)
                    L = e.I.opsym('L', e.X, e.Y, True)
                    kw = {'tau': Rat.var('tau'), 'sigma': Rat.var('sigma'),
                          'y': y}
                    kw.update(extra)
                    return [x, e.fun('f', e.X), e.fun('g', e.Y), L,
                            niter], kw, {'x': x, 'y': y}
                r = c11.run(model, c11.PDHG, 'pdhg', b)
                steps = dict(c11.PROX_STEPS)
                found = []
                for lbl in ('x', 'y'):
                    apps(vs.thaw(r['final'][lbl]), found)
                probs = []
                nprox = 0
                seen = set()
                for opkey, arg in found:
                    if not (isinstance(opkey, tuple) and opkey[0] == 'op'
                            and opkey[1] in steps):
                        continue
                    sig = (opkey, vs.freeze(arg))
                    if sig in seen:
                        continue
                    seen.add(sig)
                    nprox += 1
                    step = steps[opkey[1]]
                    if opkey[1].startswith('prox[f,'):
                        c = coef_sum(arg, {('adj', ('op', 'L'))})
                        want = -step
                    else:
                        c = coef_sum(arg, {('op', 'L')})
                        want = step
                    d = c - want
                    if not d.is_zero():
                        # sqrt(z)^2 = z
                        from ..quadmodel import sqrt_reduce
                        if not sqrt_reduce(Rat(d.n)).is_zero():
                            probs.append('%s is applied to an argument '
                                         'whose operator term has the step '
                                         '%r' % (opkey[1], c))
                if nprox < 2 * niter:
                    probs.append('only %d proximal applications found'
                                 % nprox)
                if probs:
                    rep.violation('R5', 'pdhg', '%s: %s' % (tag, probs[0]),
                                  c11.PDHG, fn.lineno)
                else:
                    rep.holds('R5', tag, '%d proximal applications use the '
                              'current step sizes' % nprox)
            except Undecided as e:
                rep.undecided('R5', tag, str(e), c11.PDHG, fn.lineno)
            except PyRaise as e:
                rep.violation('R5', 'pdhg', '%s: raises %s' % (tag, e.name),
                              c11.PDHG, fn.lineno)


# --------------------------------------------------------------------------
# R6: a solution is a fixed point.  The functionals are uninterpreted; the
# first-order optimality conditions at a symbolic point are added as rewrite
# axioms on the proximal symbols:
#     -sum L_i^* y_i - grad h(x*)  in  df(x*)   ==>
#         prox_{t f}(x* - t (grad h(x*) + sum L_i^* y_i)) = x*   for every t
#     L_i x*  in  dg_i^*(y_i)                    ==>
#         prox_{s g_i^*}(y_i + s L_i x*) = y_i                   for every s
# and the solver, started in its own variables at such a point, must return
# it after 1, 2 and 3 iterations -- identically in all step sizes.
def _fixed_points(rep, model):
    from . import c11
    from .. import vs
    from ..ratfun import Rat
    from ..symex import Interp, Func, OpV, Vec, Builtin, PyRaise, to_rat
    from ..forks import explore

    class FPOSym(vs.OSym):
        def __init__(self, name, axioms, reg):
            vs.OSym.__init__(self, name, False, reg)
            self.axioms = axioms

        def apply(self, lf):
            for arg, res in self.axioms:
                if not vs.add(lf, arg, -1):
                    return dict(res)
            return vs.OSym.apply(self, lf)

    class FPHooks(c11.SolverHooks):
        def __init__(self):
            c11.SolverHooks.__init__(self)
            self.fp = {}

        def on_getattr(self, interp, obj, name):
            if isinstance(obj, OpV) and obj.functional and \
                    name == 'proximal' and obj.term.name in self.fp:
                fname = obj.term.name

                def prox(sigma):
                    k = ('fpprox', fname, repr(to_rat(sigma)))
                    if k not in self.memo:
                        ax = self.fp[fname](to_rat(sigma))
                        self.memo[k] = OpV(FPOSym(
                            'prox[%s,%s]' % (fname, k[2]), ax, interp.reg),
                            obj.domain, obj.domain, False)
                    return self.memo[k]
                return Builtin('proximal', prox)
            return c11.SolverHooks.on_getattr(self, interp, obj, name)

    def setup(assume):
        H = FPHooks()
        I = Interp(model, assume, H)
        return H, I, c11.Env(I, H)

    def grad_at(H, I, fun, lf):
        g = H.on_getattr(I, fun, 'gradient')
        return g.term.apply(lf)

    # ---- scenarios: (tag, file, function, runner(assume, niter)) ---------
    def pdhg(extra):
        def run(assume, niter):
            H, I, e = setup(assume)
            xs, ys = vs.sym('xs'), vs.sym('ys')
            L = I.opsym('L', e.X, e.Y, True)
            LTy, Lx = L.term.adj().apply(ys), L.term.apply(xs)
            H.fp['f'] = lambda t: [(vs.add(xs, LTy, -t), xs)]
            H.fp['g*'] = lambda s_: [(vs.add(ys, Lx, s_), ys)]
            x, y = Vec(dict(xs), e.X), Vec(dict(ys), e.Y)
            kw = {'tau': Rat.var('tau'), 'sigma': Rat.var('sigma'), 'y': y}
            kw.update(extra)
            fn = model.ctx.func(c11.PDHG, 'pdhg')
            I.call_func(Func(fn, I.env_of(c11.PDHG), None),
                        [x, e.fun('f', e.X), e.fun('g', e.Y), L, niter], kw)
            return [('x', vs.add(x.val, xs, -1)),
                    ('y', vs.add(y.val, ys, -1))]
        return run

    def dr(same):
        def run(assume, niter):
            H, I, e = setup(assume)
            Ys = [e.Y, e.Y if same else e.Y2]
            x0 = vs.sym('x0')
            L = [I.opsym('L%d' % i, e.X, Ys[i], True) for i in range(2)]
            tau = Rat.var('tau')
            sig = [Rat.var('ss0'), Rat.var('ss1')]
            # the dual variables start at zero inside the solver: the
            # points it can be started at are y_i = -sigma_i/2 L_i x0,
            # x* = x0 + tau sum L_i^* y_i
            ystar = [vs.scale(L[i].term.apply(x0), -sig[i] / 2)
                     for i in range(2)]
            LTy = {}
            for i in range(2):
                LTy = vs.add(LTy, L[i].term.adj().apply(ystar[i]))
            xstar = vs.add(x0, LTy, tau)
            H.fp['f'] = lambda t: [(vs.add(xstar, LTy, -t), xstar)]
            for i in range(2):
                H.fp['g%d*' % i] = (lambda i: lambda s_: [(vs.add(
                    ystar[i], L[i].term.apply(xstar), s_), ystar[i])])(i)
            x = Vec(dict(x0), e.X)
            g = [e.fun('g%d' % i, Ys[i]) for i in range(2)]
            fn = model.ctx.func(DR, 'douglas_rachford_pd')
            I.call_func(Func(fn, I.env_of(DR), None),
                        [x, e.fun('f', e.X), g, L, niter],
                        {'tau': tau, 'sigma': sig})
            return [('x', vs.add(x.val, xstar, -1))]
        return run

    def fbpd(assume, niter):
        H, I, e = setup(assume)
        xs = vs.sym('xs')
        L = [I.opsym('L%d' % i, e.X, e.Y, True) for i in range(2)]
        h = e.fun('h', e.X)
        gh = grad_at(H, I, h, xs)
        H.fp['f'] = lambda t: [(vs.add(xs, gh, -t), xs)]
        for i in range(2):
            H.fp['g%d*' % i] = (lambda i: lambda s_: [(vs.scale(
                L[i].term.apply(xs), s_), {})])(i)
        x = Vec(dict(xs), e.X)
        g = [e.fun('g%d' % i, e.Y) for i in range(2)]
        fn = model.ctx.func(FB, 'forward_backward_pd')
        I.call_func(Func(fn, I.env_of(FB), None),
                    [x, e.fun('f', e.X), g, L, h, Rat.var('tau'),
                     [Rat.var('ss0'), Rat.var('ss1')], niter], {})
        return [('x', vs.add(x.val, xs, -1))]

    def pgrad(fname, extra=None):
        def run(assume, niter):
            H, I, e = setup(assume)
            xs = vs.sym('xs')
            g = e.fun('g', e.X)
            gg = grad_at(H, I, g, xs)
            H.fp['f'] = lambda t: [(vs.add(xs, gg, -t), xs)]
            x = Vec(dict(xs), e.X)
            fn = model.ctx.func(c11.PGRAD, fname)
            I.call_func(Func(fn, I.env_of(c11.PGRAD), None),
                        [x, e.fun('f', e.X), g, Rat.var('gamma'), niter],
                        dict(extra or {}))
            return [('x', vs.add(x.val, xs, -1))]
        return run

    scen = [('pdhg[plain]', c11.PDHG, 'pdhg', pdhg({})),
            ('pdhg[theta=0]', c11.PDHG, 'pdhg', pdhg({'theta': 0})),
            ('pdhg[gamma_primal]', c11.PDHG, 'pdhg',
             pdhg({'gamma_primal': Rat.var('gp')})),
            ('pdhg[gamma_dual]', c11.PDHG, 'pdhg',
             pdhg({'gamma_dual': Rat.var('gd')})),
            ('douglas_rachford_pd[2 operators, one range]', DR,
             'douglas_rachford_pd', dr(True)),
            ('douglas_rachford_pd[2 operators, two ranges]', DR,
             'douglas_rachford_pd', dr(False)),
            ('forward_backward_pd[2 operators]', FB, 'forward_backward_pd',
             fbpd),
            ('proximal_gradient', c11.PGRAD, 'proximal_gradient',
             pgrad('proximal_gradient')),
            ('proximal_gradient[lam]', c11.PGRAD, 'proximal_gradient',
             pgrad('proximal_gradient', {'lam': Rat.var('lam')})),
            ('accelerated_proximal_gradient', c11.PGRAD,
             'accelerated_proximal_gradient',
             pgrad('accelerated_proximal_gradient'))]
    n = 0
    for tag, rel, fname, run in scen:
        fn = model.ctx.func(rel, fname)
        if fn is None:
            raise AnalysisError('anchor vanished: %s' % fname)
        for niter in (1, 2, 3):
            n += 1
            cons = '%s,niter=%d' % (tag, niter)
            try:
                leaves = explore(lambda a: run(a, niter), limit=40)
                bad = []
                for a, diffs in leaves:
                    for lbl, d in diffs:
                        if d:
                            bad.append('%s leaves the solution: %s - %s* = '
                                       '%s' % (lbl, lbl, lbl,
                                               vs.show(d)[:200]))
                if bad:
                    rep.violation('R6', cons, bad[0], rel, fn.lineno)
                else:
                    rep.holds('R6', cons, 'started at a point satisfying '
                              'the optimality conditions, returns it')
            except Undecided as e:
                rep.undecided('R6', cons, str(e), rel, fn.lineno)
            except PyRaise as e:
                rep.violation('R6', cons, 'raises %s' % e.name, rel,
                              fn.lineno)
    rep.floor('R6', 'fixed-point runs', n, 30)


# --------------------------------------------------------------------------
# R7: in random order the per-operator data (right-hand side, relaxation
# parameter) follow the operator: a sweep in the order given by the
# permutation equals a fixed-order sweep over the permuted problem.
def _kaczmarz_random(rep, model):
    from . import c11
    from .. import vs
    from ..ratfun import Rat
    from ..symex import Interp, Func, Vec, Builtin, Rec, NPV, PyRaise
    from ..forks import explore
    fn = model.ctx.func(c11.ITER, 'kaczmarz')
    if fn is None:
        raise AnalysisError('anchor vanished: kaczmarz')

    class PH(c11.SolverHooks):
        def __init__(self, perm):
            c11.SolverHooks.__init__(self)
            self.perm = perm

        def on_getattr(self, interp, obj, name):
            if obj is NPV and name == 'random':
                return Rec('np.random', permutation=Builtin(
                    'permutation', lambda seq: [list(seq)[k]
                                                for k in self.perm]))
            if isinstance(obj, Rec) and name in obj.attrs:
                return obj.attrs[name]
            return c11.SolverHooks.on_getattr(self, interp, obj, name)

    def run(perm, random, order, niter, scalar_omega):
        def once(assume):
            H = PH(perm)
            I = Interp(model, assume, H)
            e = c11.Env(I, H)
            sp = [e.Y, e.Y2, e.Y]
            ops = [I.opsym('A%d' % k, e.X, sp[k], False) for k in range(3)]
            rhs = [e.vec('r%d' % k, sp[k]) for k in range(3)]
            om = [Rat.var('om%d' % k) for k in range(3)]
            I.real_scalars.update({'om0', 'om1', 'om2', 'om'})
            x = e.vec('x', e.X)
            I.call_func(Func(fn, I.env_of(c11.ITER), None), [
                [ops[k] for k in order], x, [rhs[k] for k in order], niter],
                {'omega': Rat.var('om') if scalar_omega
                 else [om[k] for k in order], 'random': random})
            return vs.freeze(x.val)
        leaves = explore(once, limit=20)
        if len(leaves) != 1:
            raise Undecided('%d execution paths' % len(leaves))
        return leaves[0][1]
    n = 0
    for perm in ((2, 0, 1), (1, 0, 2), (2, 1, 0)):
        for niter in (1, 2):
            for scalar_omega in (False, True):
                n += 1
                cons = 'kaczmarz[random order %s, niter=%d, %s omega]' % (
                    list(perm), niter, 'scalar' if scalar_omega
                    else 'per-operator')
                try:
                    a = run(perm, True, (0, 1, 2), niter, scalar_omega)
                    b = run(perm, False, perm, niter, scalar_omega)
                    if a != b:
                        rep.violation(
                            'R7', cons, 'the sweep in the drawn order '
                            'differs from the fixed-order sweep over the '
                            'permuted operators / right-hand sides / '
                            'relaxation parameters: per-operator data do '
                            'not follow their operator', c11.ITER,
                            fn.lineno)
                    else:
                        rep.holds('R7', cons, 'equals the fixed-order sweep '
                                  'over the permuted problem')
                except Undecided as e:
                    rep.undecided('R7', cons, str(e), c11.ITER, fn.lineno)
                except PyRaise as e:
                    rep.violation('R7', cons, 'raises %s' % e.name,
                                  c11.ITER, fn.lineno)
    rep.floor('R7', 'random-order sweeps', n, 12)
