"""C17 scenarios: tensors, discretized elements, legacy wrappers, wrapping."""
from __future__ import annotations

import ast
import itertools

import numpy as _np

from ..core import Undecided, AnalysisError
from ..ratfun import Rat
from ..symex import (Interp, Inst, Func, Bound, Builtin, Opaque, Rec, ClassV,
                     NI, PyRaise, is_scalar, to_rat)
from ..namodel import NA, DT, symbols, filled, na_of, as_dt, objarr
from .c17 import (UH, UI, UFunc, UFUNCS, TS, DS, setup, tensor, data_of,
                  same_entries, guarded, ufunc_call, weighting_rec, NPY, DSP,
                  BASE, UFN, UTIL)

SHAPE = (2, 3)


def oracle(model, u, method, operands, kwargs):
    """NumPy (the uninterpreted ufunc) on the underlying arrays."""
    H = UH(model)
    I = UI(model, {}, H)
    arrs = []
    for o in operands:
        d = data_of(o)
        arrs.append(NA(d.a.copy(), d.dt) if isinstance(d, NA) else d)
    kw = {k: v for k, v in kwargs.items() if k != 'out'}
    res = H.apply(I, u, method, arrs, kw)
    return res, arrs


def entries(v):
    if isinstance(v, NA):
        return {idx: to_rat(v.a[idx]) for idx in _np.ndindex(*v.a.shape)}
    return {(): to_rat(v)}


def res_dtype(v):
    return v.dt if isinstance(v, NA) else None


def check_operands(H, operands):
    """The ufunc was invoked once, on arrays that are the operands' own
    data (or the untouched non-element operands), in order."""
    calls = H.log.ufunc_calls
    if len(calls) != 1:
        return 'the NumPy ufunc is invoked %d times' % len(calls)
    u, method, args, kw = calls[0]
    if len(args) != len(operands):
        return '%d operands handed to NumPy instead of %d' % (
            len(args), len(operands))
    for k, (a, o) in enumerate(zip(args, operands)):
        d = data_of(o)
        if isinstance(d, NA):
            if not (isinstance(a, NA) and _np.shares_memory(a.a, d.a)
                    and a.a.shape == d.a.shape):
                return 'operand %d handed to NumPy is not the array ' \
                    'behind the element' % k
        elif a is not o and not (is_scalar(a) and is_scalar(o) and
                                 (to_rat(a) - to_rat(o)).is_zero()):
            return 'operand %d is replaced by %r' % (k, a)
    return None


def check_result(ret, want, given, kind, space_cls='NumpyTensor'):
    """ret: what __array_ufunc__ returned; want: oracle result; given: the
    caller's out object or None."""
    if given is not None:
        if ret is not given:
            return 'returns %r instead of the given out object' % (ret,)
        return same_entries(data_of(given), entries(want))
    if not isinstance(want, NA):
        if not is_scalar(ret) or not (to_rat(ret) - to_rat(want)).is_zero():
            return 'returns %r, NumPy gives the scalar %r' % (ret, want)
        return None
    if not (isinstance(ret, Inst) and ret.ci.name == space_cls):
        return 'returns %r, not a %s' % (ret, space_cls)
    msg = same_entries(data_of(ret), entries(want))
    if msg:
        return msg
    sp = ret.attrs['_LinearSpaceElement__space']
    tsp = sp.tspace if isinstance(sp, DS) else sp
    if not isinstance(tsp, TS):
        return 'result space is %r' % (tsp,)
    if tsp.shape != want.a.shape:
        return 'result space has shape %r, the result %r' % (
            tsp.shape, want.a.shape)
    if tsp.dtype != want.dt:
        return 'result space has dtype %r, NumPy gives %r' % (
            tsp.dtype, want.dt)
    d = data_of(ret)
    if d.dt != want.dt:
        return 'result data has dtype %r, NumPy gives %r' % (d.dt, want.dt)
    return None


def make_out(H, kind, shape, dt, name='o'):
    if kind is None:
        return None
    if kind == 'ndarray':
        return filled(shape, Rat.var('garbage'), dt)
    sp = TS(shape, dt, Rat.const(2), weighting_rec(name), tag=name)
    return H.mk_tensor(sp, filled(shape, Rat.var('garbage'), dt))


# ---------------------------------------------------------------------------
def call_scenarios():
    """(name, ufunc, operand builder, kwargs)"""
    out = []
    for mix in ('x', ):
        for un in ('sin', 'isfinite'):
            out.append((un, [('elem', 'x')]))
    for bn in ('add', 'less'):
        for ops in ([('elem', 'x'), ('elem', 'y')],
                    [('elem', 'x'), ('arr', 'a')],
                    [('arr', 'a'), ('elem', 'x')],
                    [('elem', 'x'), ('scalar', 3)],
                    [('scalar', 3), ('elem', 'x')],
                    [('elem', 'x'), ('same', 'x')],
                    [('elem', 'x'), ('row', 'r')]):
            out.append((bn, ops))
    return out


def build_ops(H, spec, mk):
    ops = []
    named = {}
    for kind, nm in spec:
        if kind == 'elem':
            named[nm] = mk(nm)
            ops.append(named[nm])
        elif kind == 'same':
            ops.append(named[nm])
        elif kind == 'arr':
            ops.append(symbols(nm, SHAPE))
        elif kind == 'row':
            ops.append(symbols(nm, (SHAPE[1],)))
        else:
            ops.append(nm)
    return ops


def self_of(ops):
    for o in ops:
        if isinstance(o, Inst):
            return o
    raise AssertionError


def tensor_rules(rep, model):
    n = 0
    # ---- __call__, one output -----------------------------------------------
    for uname, spec in call_scenarios():
        u = UFUNCS[uname]
        for okind in (None, 'tensor', 'ndarray'):
            for kw in ({}, {'dtype': DT('float32')}):
                if kw and u.kind == 'bool':
                    continue
                tag = 'NumpyTensor:%s(%s)%s%s' % (
                    uname, ','.join('%s' % k for k, _ in spec),
                    '' if okind is None else ',out=' + okind,
                    ',dtype' if kw else '')

                def f(u=u, spec=spec, okind=okind, kw=kw):
                    I, H = setup(model)
                    ops = build_ops(H, spec, lambda nm: tensor(H, nm))
                    want, _ = oracle(model, u, '__call__', ops, kw)
                    o = make_out(H, okind, want.a.shape,
                                 'bool' if u.kind == 'bool' else 'float64')
                    k = dict(kw)
                    if o is not None:
                        k['out'] = (o,)
                    ret = ufunc_call(I, self_of(ops), u, '__call__', ops, k)
                    return check_operands(H, ops) or check_result(
                        ret, want, o, okind)
                guarded(rep, 'R1', tag, f)
                n += 1
    # ---- __call__, two outputs ------------------------------------------------
    for uname, spec in (('modf', [('elem', 'x')]),
                        ('frexp', [('elem', 'x')]),
                        ('divmod', [('elem', 'x'), ('elem', 'y')]),
                        ('divmod', [('arr', 'a'), ('elem', 'x')])):
        u = UFUNCS[uname]
        for okinds in ((None, None), ('tensor', 'tensor'),
                       ('tensor', None), (None, 'ndarray'), ()):
            tag = 'NumpyTensor:%s(%s),out=%s' % (
                uname, ','.join(k for k, _ in spec),
                '(' + ','.join(str(k) for k in okinds) + ')')

            def f(u=u, spec=spec, okinds=okinds):
                I, H = setup(model)
                ops = build_ops(H, spec, lambda nm: tensor(H, nm))
                want, _ = oracle(model, u, '__call__', ops, {})
                outs = tuple(make_out(H, k, SHAPE, 'float64', 'o%d' % i)
                             for i, k in enumerate(okinds))
                k = {}
                if okinds:
                    k['out'] = outs
                else:
                    outs = (None, None)
                ret = ufunc_call(I, self_of(ops), u, '__call__', ops, k)
                if not (isinstance(ret, tuple) and len(ret) == 2):
                    return 'returns %r' % (ret,)
                m = check_operands(H, ops)
                for r, w, o in zip(ret, want, outs):
                    m = m or check_result(r, w, o, None)
                return m
            guarded(rep, 'R1', tag, f)
            n += 1
    # ---- methods --------------------------------------------------------------------
    add = UFUNCS['add']
    meths = []
    for axis in ('absent', 0, 1, -1, (0, 1), None, (-1,)):
        for keep in (False, True):
            kw = {} if axis == 'absent' else {'axis': axis}
            if keep:
                kw['keepdims'] = True
            meths.append(('reduce', [('elem', 'x')], kw))
    meths.append(('reduce', [('elem', 'x')], {'axis': 0,
                                             'dtype': DT('float32')}))
    for axis in ('absent', 1, -1):
        meths.append(('accumulate', [('elem', 'x')],
                      {} if axis == 'absent' else {'axis': axis}))
    meths.append(('outer', [('elem', 'x'), ('elem', 'y')], {}))
    meths.append(('outer', [('elem', 'x'), ('arr', 'a')], {}))
    meths.append(('outer', [('arr', 'a'), ('elem', 'x')], {}))
    meths.append(('reduceat', [('elem', 'x'), ('idx', [0, 1])], {'axis': 1}))
    # narrow integers: NumPy accumulates in the platform integer, the result
    # has another dtype than the element
    for method in ('reduce', 'accumulate'):
        for dt in ('int8', 'uint8', 'int32', 'bool'):
            tag = 'NumpyTensor[%s]:add.%s(elem,axis=1)' % (dt, method)

            def f(method=method, dt=dt):
                I, H = setup(model, dt=dt)
                x = tensor(H, 'x', dt=dt)
                want, _ = oracle(model, add, method, [x], {'axis': 1})
                ret = ufunc_call(I, x, add, method, [x], {'axis': 1})
                return check_operands(H, [x]) or check_result(ret, want,
                                                              None, None)
            guarded(rep, 'R1', tag, f)
            n += 1
    for method, spec, kw in meths:
        for okind in (None, 'tensor', 'ndarray'):
            tag = 'NumpyTensor:add.%s(%s%s)%s' % (
                method, ','.join(k for k, _ in spec),
                ''.join(',%s=%s' % (k, getattr(v, 'd', v))
                        for k, v in sorted(kw.items())),
                '' if okind is None else ',out=' + okind)

            def f(method=method, spec=spec, kw=kw, okind=okind):
                I, H = setup(model)
                ops = build_ops(H, [s for s in spec if s[0] != 'idx'],
                                lambda nm: tensor(H, nm))
                for s in spec:
                    if s[0] == 'idx':
                        ops.append(list(s[1]))
                want, _ = oracle(model, add, method, ops, kw)
                if okind is not None and not isinstance(want, NA):
                    o = filled((), Rat.var('garbage'), 'float64') \
                        if okind == 'ndarray' else None
                    if o is None:
                        return None         # no 0-d tensors
                else:
                    o = make_out(H, okind, want.a.shape if isinstance(
                        want, NA) else (), 'float64')
                k = dict(kw)
                if o is not None:
                    k['out'] = (o,)
                ret = ufunc_call(I, self_of(ops), add, method, ops, k)
                return check_operands(H, ops) or check_result(
                    ret, want, o, okind)
            guarded(rep, 'R1', tag, f)
            n += 1
    # ---- at: in place, returns None ---------------------------------------------
    for spec_vals in (None, 'arr'):
        def f(spec_vals=spec_vals):
            I, H = setup(model)
            x = tensor(H, 'x', (4,))
            before = data_of(x)
            ops = [x, [0, 2]]
            if spec_vals:
                ops.append(symbols('v', (2,)))
            u = UFUNCS['negative'] if spec_vals is None else add
            _, arrs = oracle(model, u, 'at', ops, {})
            ret = ufunc_call(I, x, u, 'at', ops, {})
            if ret is not None:
                return 'at returns %r' % (ret,)
            if data_of(x) is not before:
                return 'the data array of the element is replaced'
            return same_entries(data_of(x), entries(arrs[0]))
        guarded(rep, 'R1', 'NumpyTensor:%s.at' % (
            'negative' if spec_vals is None else 'add'), f)
        n += 1
    # ---- protocol errors ----------------------------------------------------------
    def bad_out_type():
        I, H = setup(model)
        x = tensor(H, 'x')
        ret = ufunc_call(I, x, UFUNCS['sin'], '__call__', [x],
                         {'out': ([1, 2],)})
        return None if ret is NI else 'a list as out gives %r instead of ' \
            'NotImplemented' % (ret,)
    guarded(rep, 'R1', 'NumpyTensor:out of foreign type', bad_out_type)

    def bad_out_count():
        I, H = setup(model)
        x = tensor(H, 'x')
        o = make_out(H, 'tensor', SHAPE, 'float64')
        try:
            ufunc_call(I, x, UFUNCS['sin'], '__call__', [x],
                       {'out': (o, o)})
        except PyRaise as e:
            return None if e.name == 'ValueError' else 'raises ' + e.name
        return 'two outs accepted for a one-output ufunc'
    guarded(rep, 'R1', 'NumpyTensor:wrong number of outs', bad_out_count)
    return n + 2


# ---------------------------------------------------------------------------
def partition(tag, shape):
    p = Rec('partition', shape=tuple(shape), ndim=len(shape),
            size=int(_np.prod(shape)), tag=tag)

    def append(other):
        shp = p.attrs['shape'] + other.attrs['shape']
        q = partition('%s+%s' % (tag, other.attrs['tag']), shp)
        q.attrs['appended'] = (p, other)
        return q
    p.attrs['append'] = Builtin('append', append)
    return p


def delem(H, name, shape=SHAPE, dt='float64', part=None):
    part = part or partition(name, shape)
    ts = TS(shape, dt, Rat.const(2), weighting_rec(name), tag=name)
    ds = DS(part, ts, tuple('ax%d' % i for i in range(len(shape))), 'given')
    t = H.mk_tensor(ts, symbols(name, shape, dt))
    return H.mk_delem(ds, t)


def make_dout(H, kind, shape, dt):
    if kind in (None, 'ndarray', 'tensor'):
        return make_out(H, kind, shape, dt)
    e = delem(H, 'o', shape, dt)
    data_of(e).a.fill(Rat.var('garbage'))
    return e


def discr_rules(rep, model):
    n = 0
    cls = 'DiscretizedSpaceElement'
    for uname, spec in call_scenarios():
        u = UFUNCS[uname]
        for okind in (None, 'delem', 'tensor', 'ndarray'):
            tag = 'Discretized:%s(%s)%s' % (
                uname, ','.join('%s' % k for k, _ in spec),
                '' if okind is None else ',out=' + okind)

            def f(u=u, spec=spec, okind=okind):
                I, H = setup(model)
                ops = build_ops(H, spec, lambda nm: delem(H, nm))
                want, _ = oracle(model, u, '__call__', ops, {})
                o = make_dout(H, okind, want.a.shape,
                              'bool' if u.kind == 'bool' else 'float64')
                k = {}
                if o is not None:
                    k['out'] = (o,)
                x = self_of(ops)
                ret = ufunc_call(I, x, u, '__call__', ops, k)
                m = check_operands(H, ops) or check_result(
                    ret, want, o, okind, cls)
                if m or o is not None:
                    return m
                sp = ret.attrs['_LinearSpaceElement__space']
                if sp.partition is not x.attrs[
                        '_LinearSpaceElement__space'].partition:
                    return 'result lives on another partition'
            guarded(rep, 'R1', tag, f, DSP)
            n += 1
    for uname, spec in (('modf', [('elem', 'x')]),
                        ('frexp', [('elem', 'x')]),
                        ('divmod', [('elem', 'x'), ('elem', 'y')])):
        u = UFUNCS[uname]
        for okinds in ((None, None), ('delem', 'delem'), ('delem', None),
                       (None, 'tensor')):
            tag = 'Discretized:%s,out=(%s)' % (uname, ','.join(
                str(k) for k in okinds))

            def f(u=u, spec=spec, okinds=okinds):
                I, H = setup(model)
                ops = build_ops(H, spec, lambda nm: delem(H, nm))
                want, _ = oracle(model, u, '__call__', ops, {})
                outs = tuple(make_dout(H, k, SHAPE, 'float64')
                             for k in okinds)
                ret = ufunc_call(I, self_of(ops), u, '__call__', ops,
                                 {'out': outs})
                if not (isinstance(ret, tuple) and len(ret) == 2):
                    return 'returns %r' % (ret,)
                m = check_operands(H, ops)
                for r, w, o in zip(ret, want, outs):
                    m = m or check_result(r, w, o, None, cls)
                return m
            guarded(rep, 'R1', tag, f, DSP)
            n += 1
    add = UFUNCS['add']
    # ---- reduce: remaining axes ---------------------------------------------------
    shape3 = (2, 3, 2)
    for axis in ('absent', 0, 1, 2, -1, -2, (0,), (0, 2), (-1,), (1, -1),
                 (0, 1, 2), None):
        for okind in (None, 'ndarray'):
            kw = {} if axis == 'absent' else {'axis': axis}
            tag = 'Discretized:add.reduce(axis=%s)%s' % (
                axis, '' if okind is None else ',out=' + okind)

            def f(kw=kw, okind=okind, axis=axis):
                I, H = setup(model)
                x = delem(H, 'x', shape3)
                want, _ = oracle(model, add, 'reduce', [x], kw)
                o = None
                if okind is not None:
                    o = filled(want.a.shape if isinstance(want, NA) else (),
                               Rat.var('garbage'), 'float64')
                k = dict(kw)
                if o is not None:
                    k['out'] = (o,)
                ret = ufunc_call(I, x, add, 'reduce', [x], k)
                m = check_operands(H, [x]) or check_result(
                    ret, want, o, okind, cls)
                if m or o is not None or not isinstance(want, NA):
                    return m
                sp = ret.attrs['_LinearSpaceElement__space']
                ax = (0,) if axis == 'absent' else (
                    tuple(range(3)) if axis is None else (
                        tuple(a % 3 for a in axis) if isinstance(
                            axis, tuple) else (axis % 3,)))
                remaining = tuple(i for i in range(3) if i not in ax)
                got = sp.partition.attrs.get('axes')
                if got != remaining:
                    return 'result lives on the axes %r of the partition, ' \
                        'the remaining axes are %r' % (got, remaining)
            guarded(rep, 'R3', tag, f, DSP)
            n += 1
    # ---- keepdims / reduceat are refused, not ignored -----------------------------
    for method, kw, ops_extra in (('reduce', {'keepdims': True}, []),
                                  ('reduceat', {'axis': 1}, [[0, 1]])):
        def f(method=method, kw=kw, ops_extra=ops_extra):
            I, H = setup(model)
            x = delem(H, 'x')
            try:
                ufunc_call(I, x, add, method, [x] + ops_extra, kw)
            except PyRaise as e:
                return None if e.name == 'ValueError' else 'raises ' + e.name
            return 'accepted'
        guarded(rep, 'R3', 'Discretized:add.%s(%s) refused' % (
            method, ','.join(kw)), f, DSP)
        n += 1
    # ---- accumulate ----------------------------------------------------------------
    for axis in ('absent', 1, -1):
        for okind in (None, 'delem', 'ndarray'):
            kw = {} if axis == 'absent' else {'axis': axis}

            def f(kw=kw, okind=okind):
                I, H = setup(model)
                x = delem(H, 'x')
                want, _ = oracle(model, add, 'accumulate', [x], kw)
                o = make_dout(H, okind, SHAPE, 'float64')
                k = dict(kw)
                if o is not None:
                    k['out'] = (o,)
                ret = ufunc_call(I, x, add, 'accumulate', [x], k)
                m = check_operands(H, [x]) or check_result(
                    ret, want, o, okind, cls)
                if m or o is not None:
                    return m
                if ret.attrs['_LinearSpaceElement__space'].partition is not \
                        x.attrs['_LinearSpaceElement__space'].partition:
                    return 'result lives on another partition'
            guarded(rep, 'R1', 'Discretized:add.accumulate(axis=%s)%s' % (
                axis, '' if okind is None else ',out=' + okind), f, DSP)
            n += 1
    # ---- outer ------------------------------------------------------------------------
    def outer():
        I, H = setup(model)
        x, y = delem(H, 'x', (2,)), delem(H, 'y', (3,))
        want, _ = oracle(model, add, 'outer', [x, y], {})
        ret = ufunc_call(I, x, add, 'outer', [x, y], {})
        m = check_operands(H, [x, y]) or check_result(ret, want, None, None,
                                                      cls)
        if m:
            return m
        sp = ret.attrs['_LinearSpaceElement__space']
        app = sp.partition.attrs.get('appended')
        px = x.attrs['_LinearSpaceElement__space'].partition
        py = y.attrs['_LinearSpaceElement__space'].partition
        if not app or app[0] is not px or app[1] is not py:
            return 'partition of the result is not partition(x) followed ' \
                'by partition(y)'
    guarded(rep, 'R3', 'Discretized:add.outer(elem,elem)', outer, DSP)

    def outer_mixed():
        I, H = setup(model)
        x = delem(H, 'x', (2,))
        try:
            ufunc_call(I, x, add, 'outer', [x, symbols('a', (3,))], {})
        except PyRaise as e:
            return None if e.name == 'TypeError' else 'raises ' + e.name
        return 'outer with a bare array accepted although no partition ' \
            'is known'
    guarded(rep, 'R3', 'Discretized:add.outer(elem,arr) refused',
            outer_mixed, DSP)
    # ---- at ---------------------------------------------------------------------------
    def at():
        I, H = setup(model)
        x = delem(H, 'x', (4,))
        before = data_of(x)
        ops = [x, [0, 2], symbols('v', (2,))]
        _, arrs = oracle(model, add, 'at', ops, {})
        ret = ufunc_call(I, x, add, 'at', ops, {})
        if ret is not None:
            return 'at returns %r' % (ret,)
        if data_of(x) is not before:
            return 'the data array of the element is replaced'
        return same_entries(data_of(x), entries(arrs[0]))
    guarded(rep, 'R1', 'Discretized:add.at', at, DSP)
    return n + 3


# ---------------------------------------------------------------------------
# legacy interface
# ---------------------------------------------------------------------------
class PElem(object):
    isinstance_names = ('ProductSpaceElement', 'LinearSpaceElement')

    def __init__(self, parts, space):
        self.parts = parts
        self.space = space

    def model_iter(self):
        return list(self.parts)

    def __len__(self):
        return len(self.parts)


class LH(UH):
    """Adds the dynamically attached ufunc methods of the legacy classes."""

    SIG = {'sin': (1, 1), 'modf': (1, 2), 'add': (2, 1), 'isfinite': (1, 1)}

    def on_getattr(self, interp, obj, name):
        I = interp
        if isinstance(obj, Inst) and obj.ci.name in (
                'TensorSpaceUfuncs', 'ProductSpaceUfuncs') and \
                name in self.SIG and name not in obj.ci.methods:
            fn = {'TensorSpaceUfuncs': 'wrap_ufunc_base',
                  'ProductSpaceUfuncs': 'wrap_ufunc_productspace'}[
                      obj.ci.name]
            node = self.model.ctx.func(UFN, fn)
            nin, nout = self.SIG[name]
            w = I.call_func(Func(node, I.env_of(UFN), None),
                            [name, nin, nout, ''], {})
            return Bound(w, obj)
        if isinstance(obj, PElem):
            if name == 'space':
                return obj.space
            if name == 'ufuncs':
                return I.instantiate(self.model.get('ProductSpaceUfuncs'),
                                     [obj], {})
            raise PyRaise('AttributeError')
        return UH.on_getattr(self, interp, obj, name)


class LI(UI):
    def contains(self, cont, item, node):
        if isinstance(cont, Rec) and cont.kind == 'pspace':
            return isinstance(item, PElem) and item.space is cont
        return UI.contains(self, cont, item, node)

    def assign(self, t, v, scope, func):
        # wrapper.__name__ = ... on a closure
        if isinstance(t, ast.Attribute):
            obj = self.ev(t.value, scope, func)
            if isinstance(obj, Func):
                return
        return UI.assign(self, t, v, scope, func)


def legacy_rules(rep, model):
    for nm in ('TensorSpaceUfuncs', 'ProductSpaceUfuncs'):
        if model.get(nm) is None:
            raise AnalysisError('anchor vanished: %s' % nm)

    def setup2():
        H = LH(model)
        return LI(model, {}, H), H

    def ufuncs_of(I, elem):
        return I.getattr_value(elem, 'ufuncs')

    # ---- tensors ----------------------------------------------------------------------
    for name, extra, okind in (('sin', [], None), ('sin', [], 'tensor'),
                               ('sin', [], 'ndarray'),
                               ('isfinite', [], None),
                               ('add', ['y'], None), ('add', ['y'], 'tensor'),
                               ('add', ['arr'], None), ('modf', [], None),
                               ('modf', [], 'pair')):
        def f(name=name, extra=extra, okind=okind):
            I, H = setup2()
            x = tensor(H, 'x')
            ops = [x]
            for e in extra:
                ops.append(tensor(H, 'y') if e == 'y' else symbols('a',
                                                                   SHAPE))
            u = UFUNCS[name]
            want, _ = oracle(model, u, '__call__', ops, {})
            kw = {}
            o = None
            if okind == 'pair':
                o = (make_out(H, 'tensor', SHAPE, 'float64', 'o1'),
                     make_out(H, 'tensor', SHAPE, 'float64', 'o2'))
                kw['out'] = o
            elif okind is not None:
                o = make_out(H, okind, SHAPE, 'float64')
                kw['out'] = o
            ret = I.call(I.getattr_value(ufuncs_of(I, x), name), ops[1:],
                         kw)
            m = check_operands(H, ops)
            if u.nout == 2:
                outs = o or (None, None)
                for r, w, oo in zip(ret, want, outs):
                    m = m or check_result(r, w, oo, None)
                return m
            return m or check_result(ret, want, o, okind)
        guarded(rep, 'R2', 'x.ufuncs.%s(%s)%s' % (
            name, ','.join(extra), '' if okind is None else ',out=' + okind),
            f, UFN)
    # keyword arguments of the ufunc (dtype=, where= with out=) reach the
    # NumPy call through the legacy wrappers as well
    for name, extra in (('sin', []), ('add', ['y']), ('add', ['arr'])):
        for kwname in ('dtype', 'where'):
            def f(name=name, extra=extra, kwname=kwname):
                I, H = setup2()
                x = tensor(H, 'x')
                ops = [x]
                for e in extra:
                    ops.append(tensor(H, 'y') if e == 'y' else symbols(
                        'a', SHAPE))
                u = UFUNCS[name]
                kw = {}
                o = None
                if kwname == 'dtype':
                    kw['dtype'] = DT('float32')
                else:
                    mask = _np.zeros(SHAPE, dtype=object)
                    for idx in _np.ndindex(*SHAPE):
                        mask[idx] = (sum(idx) % 2 == 0)
                    kw['where'] = NA(mask, 'bool')
                    o = make_out(H, 'tensor', SHAPE, 'float64')
                    kw['out'] = o
                okw = dict(kw)
                if o is not None:
                    okw['out'] = (o,)
                want, _ = oracle(model, u, '__call__', ops, okw)
                ret = I.call(I.getattr_value(ufuncs_of(I, x), name), ops[1:],
                             kw)
                return check_operands(H, ops) or check_result(
                    ret, want, o, 'tensor' if o is not None else None)
            guarded(rep, 'R2', 'x.ufuncs.%s(%s,%s=...)' % (
                name, ','.join(extra), kwname), f, UFN)
    for red, uname in (('sum', 'add'), ('prod', 'multiply'),
                       ('min', 'minimum'), ('max', 'maximum')):
        for kw in ({}, {'axis': 1}, {'axis': 0, 'keepdims': True},
                   {'dtype': DT('float32')},
                   {'axis': 1, 'dtype': DT('float32')}):
            def f(red=red, uname=uname, kw=kw):
                I, H = setup2()
                x = tensor(H, 'x')
                k = dict(kw)
                k.setdefault('axis', None)
                want, _ = oracle(model, UFUNCS[uname], 'reduce', [x], k)
                ret = I.call(I.getattr_value(ufuncs_of(I, x), red), [], kw)
                return check_operands(H, [x]) or check_result(
                    ret, want, None, None)
            guarded(rep, 'R2', 'x.ufuncs.%s(%s)' % (red, ','.join(
                '%s=%s' % kv for kv in sorted(kw.items()))), f, UFN)
    # ---- product-space elements -----------------------------------------------------
    def pelem(H, name, n=2, space=None):
        parts = [tensor(H, '%s%d' % (name, i)) for i in range(n)]
        if space is not None:
            return PElem(parts, space)
        psp = Rec('pspace')
        psp.attrs['element'] = Builtin(
            'pspace.element', lambda inp=None: PElem(
                list(inp) if inp is not None else [H.mk_tensor(
                    p.attrs['_LinearSpaceElement__space'],
                    filled(SHAPE, Rat.var('garbage'), 'float64'))
                    for p in parts], psp))
        return PElem(parts, psp)

    # nested power space (X^2)^2 with an operand from the inner space X^2:
    # NumPy broadcasting pairs x[i][j] with y[j]
    def nested(H):
        inner_sp = Rec('pspace')

        def mk_inner(nm, garbage=False):
            parts = [H.mk_tensor(
                tensor(H, 'tmpl').attrs['_LinearSpaceElement__space'],
                filled(SHAPE, Rat.var('garbage'), 'float64'))
                if garbage else tensor(H, '%s%d' % (nm, j))
                for j in range(2)]
            return PElem(parts, inner_sp)
        inner_sp.attrs['element'] = Builtin(
            'pspace.element', lambda inp=None: PElem(list(inp), inner_sp)
            if inp is not None else mk_inner('g', True))
        outer_sp = Rec('pspace')
        outer_sp.attrs['element'] = Builtin(
            'pspace.element', lambda inp=None: PElem(
                list(inp) if inp is not None else
                [mk_inner('g', True) for _ in range(2)], outer_sp))
        x = PElem([mk_inner('x%d' % i) for i in range(2)], outer_sp)
        return x, mk_inner('y')

    for variant in ('plain', 'out'):
        def f(variant=variant):
            I, H = setup2()
            x, y = nested(H)
            u = UFUNCS['add']
            kw = {}
            o = None
            if variant == 'out':
                o = I.call(x.space.attrs['element'], [], {})
                kw['out'] = o
            ret = I.call(I.getattr_value(I.getattr_value(x, 'ufuncs'),
                                         'add'), [y], kw)
            if o is not None and ret is not o:
                return 'returns %r instead of the given out' % (ret,)
            if not isinstance(ret, PElem) or not all(
                    isinstance(p, PElem) for p in ret.parts):
                return 'returns %r' % (ret,)
            for i, row in enumerate(ret.parts):
                for j, part in enumerate(row.parts):
                    want, _ = oracle(model, u, '__call__',
                                     [x.parts[i].parts[j], y.parts[j]], {})
                    m = same_entries(data_of(part), entries(want))
                    if m:
                        return 'component [%d][%d]: %s' % (i, j, m)
        guarded(rep, 'R2', 'nested pspace x.ufuncs.add(inner element)[%s]'
                % variant, f, UFN)
    for name, variant in (('sin', 'plain'), ('sin', 'out'),
                          ('add', 'elem'), ('add', 'elem,out'),
                          ('add', 'scalar'), ('modf', 'plain'),
                          ('modf', 'outs')):
        def f(name=name, variant=variant):
            I, H = setup2()
            x = pelem(H, 'x')
            u = UFUNCS[name]
            args, kw = [], {}
            others = None
            if variant.startswith('elem'):
                others = pelem(H, 'y', space=x.space)
                args.append(others)
            elif variant == 'scalar':
                args.append(3)
            o = None
            if variant.endswith('out'):
                o = I.call(x.space.attrs['element'], [], {})
                kw['out'] = o
            if variant == 'outs':
                o = (I.call(x.space.attrs['element'], [], {}),
                     I.call(x.space.attrs['element'], [], {}))
                kw['out1'], kw['out2'] = o
            ret = I.call(I.getattr_value(I.getattr_value(x, 'ufuncs'),
                                         name), args, kw)
            rets = ret if u.nout == 2 else (ret,)
            outs = o if isinstance(o, tuple) else (o,) * u.nout
            if u.nout == 2 and o is None:
                outs = (None, None)
            for k, (r, oo) in enumerate(zip(rets, outs)):
                if oo is not None and r is not oo:
                    return 'output %d: returns %r instead of the given ' \
                        'out' % (k, r)
                if not isinstance(r, PElem):
                    return 'returns %r' % (r,)
                for i, part in enumerate(r.parts):
                    ops = [x.parts[i]]
                    if others is not None:
                        ops.append(others.parts[i])
                    elif variant == 'scalar':
                        ops.append(3)
                    want, _ = oracle(model, u, '__call__', ops, {})
                    w = want[k] if u.nout == 2 else want
                    m = same_entries(data_of(part), entries(w))
                    if m:
                        return 'component %d: %s' % (i, m)
        guarded(rep, 'R2', 'pspace x.ufuncs.%s[%s]' % (name, variant), f,
                UFN)


# ---------------------------------------------------------------------------
# wrapping / round trip
# ---------------------------------------------------------------------------
def pspace_protocol(rep, model):
    """R6: power-space elements take part in NumPy ufuncs through the legacy
    protocol `x.__array_wrap__(ufunc(x.__array__()))`.  The result array of a
    ufunc has the ufunc's dtype (float for sqrt / true_divide of integers,
    bool for comparisons): the element returned by `__array_wrap__` must lie
    in a space of that dtype - wrapping it in the element's own space casts
    the numbers back."""
    PSP = 'odl/space/pspace.py'
    ci = model.get('ProductSpaceElement')
    if ci is None or '__array_wrap__' not in ci.methods:
        raise AnalysisError('anchor vanished: ProductSpaceElement.'
                            '__array_wrap__')
    fn = ci.methods['__array_wrap__']

    def mkspace(dt):
        sp = Rec('pspace', dtype=DT(dt), is_power_space=True, shape=(2, 3))
        sp.attrs['element'] = Builtin('element', lambda arr=None, **k: Rec(
            'pselem', space=sp, data=arr, cast=(
                isinstance(arr, NA) and arr.dt != DT(dt))))
        sp.attrs['astype'] = Builtin('astype', lambda d: sp if as_dt(
            d) == DT(dt) else mkspace(as_dt(d).d))
        return sp
    n = 0
    for sdt, rdt, what in (('int64', 'float64', 'np.sqrt / np.true_divide of '
                            'an integer element'),
                           ('int64', 'bool', 'a comparison'),
                           ('float64', 'bool', 'np.isfinite'),
                           ('float32', 'float64', 'a result promoted by a '
                            'double-precision operand'),
                           ('float64', 'float64', 'a result of the '
                            'element\'s own dtype')):
        n += 1
        cons = 'ProductSpaceElement.__array_wrap__[%s element, %s result]' \
            % (sdt, rdt)

        def f(sdt=sdt, rdt=rdt, what=what):
            H = UH(model) if False else None
            I, H = setup(model)
            sp = mkspace(sdt)
            x = Inst(ci)
            x.attrs['_LinearSpaceElement__space'] = sp
            arr = symbols('r', (2, 3), rdt)
            r = I.call_func(Func(fn, I.env_of(PSP), ci), [arr], {}, x)
            if not (isinstance(r, Rec) and r.kind == 'pselem'):
                return 'returns %r' % (r,)
            got = r.attrs['space'].attrs['dtype']
            if got != DT(rdt):
                return ('the result array of %s has dtype %s but is wrapped '
                        'in a space of dtype %s: the numbers are cast back'
                        % (what, rdt, got.d))
            if r.attrs['data'] is not arr:
                return 'another array is wrapped'
        guarded(rep, 'R6', cons, f, PSP)
    rep.floor('R6', 'legacy-protocol wrappings', n, 5)


def wrapping_rules(rep, model):
    ci = model.get('NumpyTensorSpace')
    if ci is None or 'element' not in ci.methods:
        raise AnalysisError('anchor vanished: NumpyTensorSpace.element')

    class WH_(UH):
        def on_getattr(self, interp, obj, name):
            if isinstance(obj, Inst) and obj.ci.name == 'NumpyTensorSpace':
                if name == 'element_type':
                    return Builtin('element_type',
                                   lambda sp, arr: self.mk_tensor(sp, arr))
                if name == 'default_order':
                    return 'C'
            return UH.on_getattr(self, interp, obj, name)

    class WI_(UI):
        def contains(self, cont, item, node):
            if isinstance(cont, Inst) and cont.ci.name in (
                    'NumpyTensorSpace', 'DiscretizedSpace'):
                return isinstance(item, Inst) and item.attrs.get(
                    '_LinearSpaceElement__space') is cont
            return UI.contains(self, cont, item, node)

    def mk():
        H = WH_(model)
        I = WI_(model, {}, H)
        sp = Inst(ci)
        sp.attrs['_TensorSpace__shape'] = SHAPE
        sp.attrs['_TensorSpace__dtype'] = DT('float64')
        return I, H, sp

    def share():
        I, H, sp = mk()
        arr = symbols('a', SHAPE)
        el = I.call(I.getattr_value(sp, 'element'), [arr], {})
        d = data_of(el)
        if not (isinstance(d, NA) and _np.shares_memory(d.a, arr.a)):
            return 'wrapping an array of matching dtype and shape copies it'
        back = I.call(I.getattr_value(el, 'asarray'), [], {})
        if back is not d:
            return 'asarray() does not return the wrapped data'
        arr2 = I.call(I.getattr_value(el, '__array__'), [], {})
        if not (isinstance(arr2, NA) and _np.shares_memory(arr2.a, arr.a)):
            return '__array__() without dtype copies'
        arr3 = I.call(I.getattr_value(el, '__array__'), [DT('float64')], {})
        if not (isinstance(arr3, NA) and _np.shares_memory(arr3.a, arr.a)):
            return '__array__(same dtype) copies'
        arr4 = I.call(I.getattr_value(el, '__array__'), [DT('float32')], {})
        if not isinstance(arr4, NA) or arr4.dt != DT('float32') or \
                same_entries(arr4, entries(arr)):
            return '__array__(float32) does not convert the values'
    guarded(rep, 'R4', 'NumpyTensorSpace.element(ndarray) shares memory',
            share)

    def share_views():
        # views with the matching dtype and shape are wrapped, not copied,
        # whatever their strides are (reversed, transposed, strided)
        for what, view in (
                ('a reversed view arr[::-1]', lambda a: a[::-1]),
                ('a view reversed in the last axis', lambda a: a[:, ::-1]),
                ('a transposed (Fortran ordered) array',
                 lambda a: a.T.copy().T),
                ('every second column of a wider array', None)):
            I, H, sp = mk()
            if view is None:
                base = symbols('b', (SHAPE[0], 2 * SHAPE[1]))
                arr = NA(base.a[:, ::2], 'float64')
            else:
                base = symbols('a', SHAPE)
                arr = NA(view(base.a), 'float64')
            el = I.call(I.getattr_value(sp, 'element'), [arr], {})
            d = data_of(el)
            if not (isinstance(d, NA) and _np.shares_memory(d.a, arr.a)):
                return 'wrapping %s copies it' % what
    guarded(rep, 'R4', 'NumpyTensorSpace.element(views) shares memory',
            share_views)

    def share_discr():
        # the same through DiscretizedSpace.element: an array of matching
        # dtype and shape is wrapped in every memory layout (no order given)
        dci = model.get('DiscretizedSpace')
        if dci is None:
            raise AnalysisError('anchor vanished: DiscretizedSpace')
        for what, view in (
                ('a C-ordered array', lambda a: a),
                ('a Fortran-ordered array', lambda a: a.T.copy().T),
                ('a view reversed in the last axis', lambda a: a[:, ::-1])):
            I, H, sp = mk()
            base = symbols('a', SHAPE)
            arr = NA(view(base.a), 'float64')
            dsp = Inst(dci)
            dsp.attrs['_DiscretizedSpace__tspace'] = sp
            wrapped = []

            class ET(object):
                pass
            dsp.attrs['tspace'] = sp
            dsp.attrs['element_type'] = Builtin(
                'element_type', lambda s_, t: wrapped.append(t) or t)
            dsp.attrs['default_order'] = 'C'
            el = I.call(I.getattr_value(dsp, 'element'), [arr], {})
            if not wrapped:
                return 'no tensor was wrapped'
            d = data_of(wrapped[-1])
            if not (isinstance(d, NA) and _np.shares_memory(d.a, arr.a)):
                return ('DiscretizedSpace.element(%s) copies it: the '
                        'element does not share memory with the array' % what)
    guarded(rep, 'R4', 'DiscretizedSpace.element(ndarray) shares memory',
            share_discr, 'odl/discr/discr_space.py')

    def same_elem():
        I, H, sp = mk()
        el = H.mk_tensor(sp, symbols('a', SHAPE))
        r = I.call(I.getattr_value(sp, 'element'), [el], {})
        return None if r is el else 'an element of the space is re-wrapped'
    guarded(rep, 'R4', 'NumpyTensorSpace.element(element) is identity',
            same_elem)

    def other_dtype():
        I, H, sp = mk()
        arr = symbols('a', SHAPE, 'float32')
        el = I.call(I.getattr_value(sp, 'element'), [arr], {})
        d = data_of(el)
        if d.dt != DT('float64'):
            return 'element data has dtype %r' % (d.dt,)
        return same_entries(d, entries(arr))
    guarded(rep, 'R4', 'NumpyTensorSpace.element(other dtype) converts',
            other_dtype)

    def readonly():
        I, H, sp = mk()
        row = symbols('r', (SHAPE[1],))
        b = NA(_np.broadcast_to(row.a, SHAPE), 'float64')
        el = I.call(I.getattr_value(sp, 'element'), [b], {})
        d = data_of(el)
        if not d.a.flags.writeable:
            return 'element wraps a read-only array'
        return same_entries(d, entries(b))
    guarded(rep, 'R4', 'NumpyTensorSpace.element(read-only) copies',
            readonly)

    def wrong_shape():
        I, H, sp = mk()
        try:
            I.call(I.getattr_value(sp, 'element'), [symbols('a', (3, 2))],
                   {})
        except PyRaise as e:
            return None if e.name == 'ValueError' else 'raises ' + e.name
        return 'array of another shape accepted'
    guarded(rep, 'R4', 'NumpyTensorSpace.element(wrong shape) refused',
            wrong_shape)

    def setitem():
        I, H, sp = mk()
        el = H.mk_tensor(sp, symbols('a', SHAPE))
        src = H.mk_tensor(sp, symbols('b', SHAPE))
        before = data_of(el)
        I.call(I.getattr_value(el, '__setitem__'), [slice(None), src], {})
        if data_of(el) is not before:
            return 'x[:] = y replaces the data array'
        return same_entries(data_of(el), entries(data_of(src)))
    guarded(rep, 'R4', 'NumpyTensor.__setitem__ writes in place', setitem)

    # writable_array: writes back on every exit
    fn = model.ctx.func(UTIL, 'writable_array')
    if fn is None:
        raise AnalysisError('anchor vanished: writable_array')

    def wa(kind):
        def f():
            I, H, sp = mk()
            el = H.mk_tensor(sp, symbols('a', SHAPE))
            g = I.call_func(Func(fn, I.env_of(UTIL), None), [el],
                            {'dtype': DT('float32')} if kind == 'dtype'
                            else {})
            arr = I.cm_enter(g)
            if not isinstance(arr, NA):
                return 'yields %r' % (arr,)
            if kind != 'dtype' and not _np.shares_memory(
                    arr.a, data_of(el).a):
                return 'yields a copy although none is needed'
            new = symbols('n', SHAPE)
            arr.a[...] = new.a
            I.cm_exit(g, PyRaise('ValueError') if kind == 'raise' else None)
            return same_entries(data_of(el), entries(new))
        return f
    for kind in ('plain', 'dtype', 'raise'):
        guarded(rep, 'R4', 'writable_array[%s] writes back' % kind, wa(kind),
                UTIL)

    # __array_wrap__
    tc = model.get('Tensor')

    def wrap():
        H = UH(model)
        I = UI(model, {}, H)
        x = tensor(H, 'x')
        arr = symbols('a', SHAPE)
        r = I.call(I.getattr_value(x, '__array_wrap__'), [arr], {})
        if not (isinstance(r, Inst) and r.ci.name == 'NumpyTensor'):
            return 'returns %r' % (r,)
        if r.attrs['_LinearSpaceElement__space'] is not x.attrs[
                '_LinearSpaceElement__space']:
            return 'wraps into another space'
        return same_entries(data_of(r), entries(arr))
    guarded(rep, 'R4', 'Tensor.__array_wrap__', wrap, BASE)
