"""C09, evaluated tier: concrete functional classes are instantiated on small
model spaces (symbolic entries, symbolic positive constant / per-entry /
per-component weights), evaluated at a symbolic generic point x, and

  * ``f.gradient(x)[j] == (d f(x) / d x_j) / w_j``   (the Riesz representative
    of the differential in the functional's own weighted inner product), and
  * ``f.derivative(x)(d) == sum_j (d f(x) / d x_j) d_j``

are decided as identities in all entries, weights and parameters, the partial
derivatives being computed symbolically from the value expression (mdiff).
Points are generic: away from the kinks of abs / sign."""
from __future__ import annotations

import ast

import numpy as _np

from ..core import Undecided, AnalysisError
from ..forks import Fork
from ..ratfun import Rat
from ..symex import (Inst, Func, Builtin, Rec, PyRaise, ModuleV, Opaque,
                     is_scalar, to_rat)
from ..namodel import NA, DT, objarr, na_of
from ..spacemodel import NotAnElement
from ..spacemodel import (SMHooks, SMInterp, NSpace, NPSpace, NField, NElem,
                          NPElem, sym_elem, inner, flat)
from .. import posalg as PA
from .. import mdiff
from ..posalg import Signs
from .c05b import witness, _where

WIT = [witness(15), witness(16)]
DF = 'odl/solvers/functional/default_functionals.py'


def entry_weights(sp):
    if isinstance(sp, NField):
        return [Rat.const(1)]
    if isinstance(sp, NPSpace):
        out = []
        for pw, p in zip(sp.weights, sp.parts):
            out += [to_rat(pw) * e for e in entry_weights(p)]
        return out
    n = 1
    for s in sp.shape:
        n *= s
    if isinstance(sp.weight, NA):
        return [to_rat(v) for v in sp.weight.a.ravel()]
    return [to_rat(sp.weight)] * n


class H9(SMHooks):
    def __init__(self):
        SMHooks.__init__(self)
        self.signs = Signs({'w', 'w0', 'w1', 'w2', 'p0', 'p1', 'gam', 'sig',
                            'c', 'q0', 'q1', 'q2', 'h0', 'h1'})

    def atom1(self, name):
        if name == 'sign':
            # generic (non-zero real) points: sign(a) = a / |a|
            def sg(x):
                r = to_rat(x)
                if r.is_const():
                    c = r.constant()
                    return Rat.const((c > 0) - (c < 0))
                return r / PA.abs_nf(r, self.signs)
            return sg
        return SMHooks.atom1(self, name)

    def on_call(self, interp, f, args, kwargs, node):
        if isinstance(f, ModuleV) and f.name.endswith('xlogy'):
            a, b = args
            lg = self.np_func(interp, 'log')(b)
            return interp.binop(ast.Mult, a, lg)
        return SMHooks.on_call(self, interp, f, args, kwargs, node)

    def np_func(self, I, name):
        if name == 'finfo':
            # machine constants: a positive tolerance symbol
            return lambda *a, **k: Rec(
                'finfo', resolution=Rat.var('eps_machine'),
                eps=Rat.var('eps_machine'), tiny=Rat.var('eps_machine'))
        return SMHooks.np_func(self, I, name)

    def on_decide(self, interp, cond, node):
        if cond.rat is not None and 'eps_machine' in [
                v for v in cond.rat.vars() if isinstance(v, str)] and \
                not cond.key.startswith('eq0:'):
            # a scale-dependent quantity compared with an absolute tolerance:
            # a regular (non-zero) point can lie on either side
            return interp.decide('tolerance test ' + cond.key, node)
        if cond.rat is not None and cond.key.startswith('eq0:'):
            return False           # generic parameters and points
        k = cond.key.split(':')[0]
        if cond.rat is not None and k in ('Lt', 'LtE', 'Gt', 'GtE'):
            sg = PA.rat_sign(cond.rat, self.signs)
            if sg is not None:
                return {'Lt': sg < 0, 'LtE': sg <= 0, 'Gt': sg > 0,
                        'GtE': sg >= 0}[k]
            if self.region is not None:
                # a piecewise functional at a generic point of one region:
                # the comparison is decided at the designated numeric point
                # of that region (strictly, so it holds on a neighbourhood,
                # where the symbolic differentiation is valid)
                env = witness(77)
                env.update(self.region)
                try:
                    v = PA.num_eval(cond.rat, env)
                except (Undecided, ZeroDivisionError, ValueError):
                    v = 0.0
                if abs(v) > 1e-6:
                    return {'Lt': v < 0, 'LtE': v <= 0, 'Gt': v > 0,
                            'GtE': v >= 0}[k]
        return SMHooks.on_decide(self, interp, cond, node)

    region = None


def spaces():
    def X(w, shape=(3,)):
        if w == 'const':
            wt = Rat.var('w')
        elif w is None:
            wt = None
        else:
            wt = NA(objarr([Rat.var('w%d' % i) for i in range(shape[0])]),
                    'float64')
        return NSpace(shape, 'float64', wt)
    return X


def builders(model):
    def inst(I, cls, *a, **k):
        return I.instantiate(model.get(cls), list(a), k)
    X = spaces()
    B = {}

    def kin(I, *a, **k):
        # a generic point inside the effective domain {x < 1}
        I.hooks.region = {'x0': 0.3, 'x1': -0.4, 'x2': 0.5}
        return inst(*a, **k)
    for w in (None, 'const', 'array'):
        t = {None: 'unweighted', 'const': 'weight w',
             'array': 'weights w0..w2'}[w]
        B['L2NormSquared[%s]' % t] = lambda I, w=w: inst(
            I, 'L2NormSquared', X(w))
        B['L2Norm[%s]' % t] = lambda I, w=w: inst(I, 'L2Norm', X(w))
        B['L1Norm[%s]' % t] = lambda I, w=w: inst(I, 'L1Norm', X(w))
        B['LpNorm[p=2,%s]' % t] = lambda I, w=w: inst(I, 'LpNorm', X(w), 2)
        B['LpNorm[p=1,%s]' % t] = lambda I, w=w: inst(I, 'LpNorm', X(w), 1)
        B['ConstantFunctional[%s]' % t] = lambda I, w=w: inst(
            I, 'ConstantFunctional', X(w), Rat.var('c'))
        B['ZeroFunctional[%s]' % t] = lambda I, w=w: inst(
            I, 'ZeroFunctional', X(w))
        B['KullbackLeibler[%s]' % t] = lambda I, w=w: inst(
            I, 'KullbackLeibler', X(w))
        B['KullbackLeibler[prior g,%s]' % t] = lambda I, w=w: inst(
            I, 'KullbackLeibler', X(w), prior=sym_elem(X(w), 'g'))
        B['KullbackLeiblerConvexConj[%s]' % t] = lambda I, w=w: kin(I, 
            I, 'KullbackLeiblerConvexConj', X(w))
        B['KullbackLeiblerConvexConj[prior g,%s]' % t] = lambda I, w=w: kin(I, 
            I, 'KullbackLeiblerConvexConj', X(w), prior=sym_elem(X(w), 'g'))
        B['KullbackLeiblerCrossEntropy[%s]' % t] = lambda I, w=w: inst(
            I, 'KullbackLeiblerCrossEntropy', X(w))
        B['KullbackLeiblerCrossEntropy[prior g,%s]' % t] = (
            lambda I, w=w: inst(I, 'KullbackLeiblerCrossEntropy', X(w),
                                prior=sym_elem(X(w), 'g')))
        B['KullbackLeiblerCrossEntropyConvexConj[%s]' % t] = (
            lambda I, w=w: inst(I, 'KullbackLeiblerCrossEntropyConvexConj',
                                X(w)))
        B['KullbackLeiblerCrossEntropyConvexConj[prior g,%s]' % t] = (
            lambda I, w=w: inst(I, 'KullbackLeiblerCrossEntropyConvexConj',
                                X(w), prior=sym_elem(X(w), 'g')))
        B['QuadraticForm[vector,constant,%s]' % t] = lambda I, w=w: inst(
            I, 'QuadraticForm', vector=sym_elem(X(w), 'b'),
            constant=Rat.var('c'))
        B['QuadraticForm[operator=Multiply,%s]' % t] = lambda I, w=w: inst(
            I, 'QuadraticForm', operator=inst(
                I, 'MultiplyOperator', sym_elem(X(w), 'm')),
            vector=sym_elem(X(w), 'b'))
    # product spaces
    def PS(wt):
        Xc = X('const', (2,))
        w = {None: None, 'array': [Rat.var('p0'), Rat.var('p1')]}[wt]
        return NPSpace([Xc, Xc], w)
    for wt in (None, 'array'):
        t = 'pspace' if wt is None else 'weighted pspace'
        B['GroupL1Norm[%s]' % t] = lambda I, wt=wt: inst(
            I, 'GroupL1Norm', PS(wt))
        B['L2NormSquared[%s]' % t] = lambda I, wt=wt: inst(
            I, 'L2NormSquared', PS(wt))
        B['L2Norm[%s]' % t] = lambda I, wt=wt: inst(I, 'L2Norm', PS(wt))
        B['L1Norm[%s]' % t] = lambda I, wt=wt: inst(I, 'L1Norm', PS(wt))
    B['SeparableSum[L2Norm, KullbackLeibler]'] = lambda I: inst(
        I, 'SeparableSum', inst(I, 'L2Norm', X('const')),
        inst(I, 'KullbackLeibler', X('array')))
    B['SeparableSum[L2NormSquared x 2]'] = lambda I: inst(
        I, 'SeparableSum', inst(I, 'L2NormSquared', X('const')), 2)
    # Huber: piecewise, evaluated at generic points of a region in which
    # entries 0, 1 are beyond the threshold and entry 2 is below it (vector
    # fields: the first point beyond, the second below)
    def hub(I, space, region):
        I.hooks.region = dict(region, gam=1.0)
        return inst(I, 'Huber', space, Rat.var('gam'))
    for w in (None, 'const', 'array'):
        t = {None: 'unweighted', 'const': 'weight w',
             'array': 'weights w0..w2'}[w]
        B['Huber[%s]' % t] = lambda I, w=w: hub(
            I, X(w), {'x0': 2.0, 'x1': -3.0, 'x2': 0.5})
    for wt in (None, 'array'):
        t = {None: 'pspace', 'array': 'pspace weights p0, p1'}[wt]
        B['Huber[%s]' % t] = lambda I, wt=wt: hub(
            I, PS(wt), {'x00': 3.0, 'x01': 0.3, 'x10': -4.0, 'x11': 0.4,
                        'p0': 1.0, 'p1': 1.0})
    # a summand with a known Lipschitz bound next to one without, in both
    # orders; summands with different bounds
    B['SeparableSum[L2NormSquared, L2Norm]'] = lambda I: inst(
        I, 'SeparableSum', inst(I, 'L2NormSquared', X('const')),
        inst(I, 'L2Norm', X('const')))
    B['SeparableSum[L2Norm, L2NormSquared]'] = lambda I: inst(
        I, 'SeparableSum', inst(I, 'L2Norm', X('const')),
        inst(I, 'L2NormSquared', X('const')))
    B['SeparableSum[L2NormSquared, 3 * L2NormSquared]'] = lambda I: inst(
        I, 'SeparableSum', inst(I, 'L2NormSquared', X('const')),
        I.binop(ast.Mult, Rat.const(3), inst(I, 'L2NormSquared',
                                             X('const'))))
    for k in ('R',):
        B['ScalingFunctional[field]'] = lambda I: inst(
            I, 'ScalingFunctional', NField('R'), Rat.var('s'))
        B['IdentityFunctional[field]'] = lambda I: inst(
            I, 'IdentityFunctional', NField('R'))
    # a quotient on the real line whose divisor is linear, not constant
    # (its gradient has Lipschitz constant 0): t^2 / (s t)
    B['FunctionalQuotient[Id * Id / ScalingFunctional(s)][field]'] = (
        lambda I: inst(I, 'FunctionalQuotient', inst(
            I, 'FunctionalProduct', inst(I, 'IdentityFunctional',
                                         NField('R')),
            inst(I, 'IdentityFunctional', NField('R'))),
            inst(I, 'ScalingFunctional', NField('R'), Rat.var('s'))))
    # derived functionals through the dunders / methods of Functional, on
    # non-quadratic leaves and weighted spaces
    def leaf(I, w, kind='L2Norm'):
        return inst(I, kind, X(w))
    for w in ('const', 'array'):
        t = {'const': 'weight w', 'array': 'weights w0..w2'}[w]
        B['expr:a * L2Norm[%s]' % t] = lambda I, w=w: I.binop(
            ast.Mult, Rat.var('a'), leaf(I, w))
        # nested argument scalings (the expression classes flatten them)
        B['expr:(L2Norm * a) * b[%s]' % t] = lambda I, w=w: I.binop(
            ast.Mult, I.binop(ast.Mult, leaf(I, w), Rat.var('a')),
            Rat.var('s'))
        B['expr:(KullbackLeibler * a) * b[%s]' % t] = lambda I, w=w: I.binop(
            ast.Mult, I.binop(ast.Mult, leaf(I, w, 'KullbackLeibler'),
                              Rat.var('a')), Rat.var('s'))
        B['expr:a * (b * L2Norm)[%s]' % t] = lambda I, w=w: I.binop(
            ast.Mult, Rat.var('a'), I.binop(ast.Mult, Rat.var('s'),
                                            leaf(I, w)))
        B['expr:L2Norm * a[%s]' % t] = lambda I, w=w: I.binop(
            ast.Mult, leaf(I, w), Rat.var('a'))
        B['expr:L2Norm * vector[%s]' % t] = lambda I, w=w: I.binop(
            ast.Mult, leaf(I, w), sym_elem(X(w), 'v'))
        B['expr:L2Norm + KullbackLeibler[%s]' % t] = lambda I, w=w: I.binop(
            ast.Add, leaf(I, w), leaf(I, w, 'KullbackLeibler'))
        B['expr:L2Norm + c[%s]' % t] = lambda I, w=w: I.binop(
            ast.Add, leaf(I, w), Rat.var('c'))
        B['expr:L2Norm.translated(y)[%s]' % t] = lambda I, w=w: I.call(
            I.getattr_value(leaf(I, w), 'translated'),
            [sym_elem(X(w), 'y')], {})
        B['expr:L2Norm * MultiplyOperator[%s]' % t] = lambda I, w=w: I.binop(
            ast.Mult, leaf(I, w), inst(I, 'MultiplyOperator',
                                       sym_elem(X(w), 'm')))
        B['expr:KullbackLeibler * ScalingOperator[%s]' % t] = (
            lambda I, w=w: I.binop(
                ast.Mult, leaf(I, w, 'KullbackLeibler'),
                inst(I, 'ScalingOperator', X(w), Rat.var('s'))))
        B['FunctionalQuadraticPerturb[L2Norm,%s]' % t] = lambda I, w=w: inst(
            I, 'FunctionalQuadraticPerturb', leaf(I, w),
            quadratic_coeff=Rat.var('q'), linear_term=sym_elem(X(w), 'l'),
            constant=Rat.var('c'))
        B['FunctionalProduct[L2Norm, KullbackLeibler,%s]' % t] = (
            lambda I, w=w: inst(I, 'FunctionalProduct', leaf(I, w),
                                leaf(I, w, 'KullbackLeibler')))
        B['FunctionalQuotient[L2NormSquared / L2Norm,%s]' % t] = (
            lambda I, w=w: inst(I, 'FunctionalQuotient',
                                leaf(I, w, 'L2NormSquared'), leaf(I, w)))
        # a divisor that is affine: its gradient has Lipschitz constant 0
        # without being constant
        B['FunctionalQuotient[L2NormSquared / (<., v> + c),%s]' % t] = (
            lambda I, w=w: inst(I, 'FunctionalQuotient',
                                leaf(I, w, 'L2NormSquared'),
                                inst(I, 'QuadraticForm',
                                     vector=sym_elem(X(w), 'v'),
                                     constant=Rat.var('c'))))
        B['BregmanDistance[KullbackLeibler,%s]' % t] = lambda I, w=w: inst(
            I, 'BregmanDistance', leaf(I, w, 'KullbackLeibler'),
            sym_elem(X(w), 'y'), sym_elem(X(w), 'u'))
        # derived functionals on a *linear* leaf <., v> (their values are
        # affine, their flag must say so)
        def lin(I, w=w):
            return inst(I, 'QuadraticForm', vector=sym_elem(X(w), 'v'))
        B['QuadraticForm[vector v,%s]' % t] = lin
        B['expr:<., v>.translated(y)[%s]' % t] = lambda I, lin=lin: I.call(
            I.getattr_value(lin(I), 'translated'), [sym_elem(
                I.getattr_value(lin(I), 'domain'), 'y')], {})
        B['expr:a * <., v>.translated(y)[%s]' % t] = (
            lambda I, lin=lin: I.binop(ast.Mult, Rat.var('a'), I.call(
                I.getattr_value(lin(I), 'translated'), [sym_elem(
                    I.getattr_value(lin(I), 'domain'), 'y')], {})))
        B['expr:<., v> + c[%s]' % t] = lambda I, lin=lin: I.binop(
            ast.Add, lin(I), Rat.var('c'))
        B['expr:<., v> * a[%s]' % t] = lambda I, lin=lin: I.binop(
            ast.Mult, lin(I), Rat.var('a'))
        B['expr:<., v> + L2Norm[%s]' % t] = lambda I, lin=lin, w=w: I.binop(
            ast.Add, lin(I), leaf(I, w))
        B['FunctionalQuadraticPerturb[<., v>, linear term, constant,%s]'
          % t] = lambda I, lin=lin, w=w: inst(
              I, 'FunctionalQuadraticPerturb', lin(I),
              linear_term=sym_elem(X(w), 'l'), constant=Rat.var('c'))
        B['FunctionalQuadraticPerturb[<., v>, linear term,%s]'
          % t] = lambda I, lin=lin, w=w: inst(
              I, 'FunctionalQuadraticPerturb', lin(I),
              linear_term=sym_elem(X(w), 'l'))
        B['FunctionalQuadraticPerturb[<., v>, quadratic,%s]'
          % t] = lambda I, lin=lin, w=w: inst(
              I, 'FunctionalQuadraticPerturb', lin(I),
              quadratic_coeff=Rat.var('q'))
    # a non-symmetric operator (unweighted: the weighted MatrixOperator
    # adjoint is known finding F28 of C05) and nonlinear inner operators
    def mat(name, shape):
        a = _np.empty(shape, dtype=object)
        for idx in _np.ndindex(*shape):
            a[idx] = Rat.var(name + ''.join(map(str, idx)))
        return NA(a, 'float64')
    B['QuadraticForm[operator=MatrixOperator,vector]'] = lambda I: inst(
        I, 'QuadraticForm', operator=inst(
            I, 'MatrixOperator', mat('m', (3, 3)), domain=X(None),
            range=X(None)), vector=sym_elem(X(None), 'b'))
    B['QuadraticForm[operator=MatrixOperator]'] = lambda I: inst(
        I, 'QuadraticForm', operator=inst(
            I, 'MatrixOperator', mat('m', (3, 3)), domain=X(None),
            range=X(None)))
    for w in ('const', 'array'):
        t = {'const': 'weight w', 'array': 'weights w0..w2'}[w]
        for leafk in ('L2NormSquared', 'L2Norm', 'KullbackLeibler'):
            B['expr:%s * PowerOperator(3)[%s]' % (leafk, t)] = (
                lambda I, w=w, leafk=leafk: I.binop(
                    ast.Mult, leaf(I, w, leafk),
                    inst(I, 'PowerOperator', X(w), 3)))
        B['expr:L2NormSquared * (Power2 + vector)[%s]' % t] = (
            lambda I, w=w: I.binop(
                ast.Mult, leaf(I, w, 'L2NormSquared'), I.binop(
                    ast.Add, inst(I, 'PowerOperator', X(w), 2),
                    sym_elem(X(w), 'v'))))
    # functionals whose _call tests the sign of the entries (effective
    # domain {x > 0}): generic points inside it, also for the point of a
    # Bregman distance; decided at a designated numeric point (H9.region)
    pos = {}
    for j, sfx in enumerate(('0', '1', '2', '00', '01', '02', '10', '11',
                             '12')):
        pos['x' + sfx] = 0.3 + 0.05 * j
        pos['y' + sfx] = 0.33 + 0.05 * j
        pos['z' + sfx] = 0.36 + 0.05 * j
    for name_, b_ in list(B.items()):
        if 'KullbackLeibler' in name_ and 'ConvexConj' not in name_:
            def wrapped(I, b_=b_):
                if getattr(I.hooks, 'region', None) is None:
                    I.hooks.region = dict(pos)
                return b_(I)
            B[name_] = wrapped
    return B


def evaluate(model, build, assume=None):
    H = H9()
    I = SMInterp(model, assume if assume is not None else {}, H)
    f = build(I)
    dom = I.getattr_value(f, 'domain')
    res = {'dom': dom}

    def pt(name):
        if isinstance(dom, NField):
            return Rat.var(name)
        return sym_elem(dom, name)

    def ent(v):
        if isinstance(dom, NField):
            return [PA.ired(to_rat(v))]
        if isinstance(v, NA):
            v = H.element(I, dom, v)
        return flat(v)
    xs = ent(pt('x'))
    fx = PA.ired(to_rat(I.call(f, [pt('x')], {})))
    ws = entry_weights(dom)
    partial = []
    for xv in xs:
        (var,) = list(xv.vars())
        partial.append(mdiff.diff(fx, var))
    res['fx'] = fx
    # gradient
    try:
        grad = I.getattr_value(f, 'gradient')
        g = ent(I.call(grad, [pt('x')], {}))
    except PyRaise as e:
        res['grad_exc'] = e
        g = None
    bad = []
    if g is not None:
        if len(g) != len(xs):
            bad.append('gradient has %d entries, the point %d'
                       % (len(g), len(xs)))
        for j, (p, gv, w) in enumerate(zip(partial, g, ws)):
            if not PA.same(p / w, gv, WIT):
                bad.append('gradient entry %d is %s, (df/dx_%d)/w_%d is %s'
                           % (j, _s(gv), j, j, _s(p / w)))
                break
    res['grad_bad'] = bad
    # R3e: a declared (finite) Lipschitz bound of the gradient is refuted by
    # a pair of numeric points at which the difference quotient of the
    # evaluated gradient exceeds it (weighted norms of the space)
    res['lip'] = None
    if g is not None and not bad and not isinstance(dom, NField) and \
            H.region is None:
        # (for a piecewise functional the evaluated gradient is that of one
        # region only and cannot be compared across points)
        try:
            L = I.getattr_value(f, 'grad_lipschitz')
        except PyRaise:
            L = None
        if L is not None and is_scalar(L) and not isinstance(L, bool):
            res['lip'] = _refute_lipschitz(to_rat(L), g, xs, ws)
        elif isinstance(L, Opaque) and L.desc in ('np.nan', 'np.inf'):
            res['lip'] = ('none', 'no bound declared (%s)' % L.desc)
    # derivative(x)(d)
    dbad = []
    try:
        der = I.call(I.getattr_value(f, 'derivative'), [pt('x')], {})
        dv = PA.ired(to_rat(I.call(der, [pt('d')], {})))
    except PyRaise as e:
        res['der_exc'] = e
        dv = None
    if dv is not None:
        ds = ent(pt('d'))
        want = Rat.const(0)
        for p, d in zip(partial, ds):
            want = want + p * d
        if not PA.same(want, dv, WIT):
            dbad.append('derivative(x)(d) is %s, sum_j df/dx_j d_j is %s'
                        % (_s(dv), _s(want)))
    res['der_bad'] = dbad
    # the linearity flag: a functional flagged linear takes the value 0 at 0
    # and is additive (is_linear short-cuts derivative, arithmetic and
    # solvers)
    try:
        flagged = I.getattr_value(f, 'is_linear')
    except PyRaise:
        flagged = False
    if flagged is True and not isinstance(dom, NField):
        zero = {}
        for xv in xs:
            (var,) = list(xv.vars())
            zero[var] = Rat.const(0)
        f0 = PA.reduce_full(mdiff.deep_subs(fx, zero, lambda k, a, at: (
            PA.abs_nf(a, H.signs) if k == 'abs' else
            PA.root(a, 2, H.signs) if k == 'sqrt' else
            Rat.var(at))))
        if not f0.n.is_zero():
            res['der_bad'] = dbad + [
                'is_linear is True but f(0) = %s' % _s(f0)]
    return res


def _refute_lipschitz(L, g, xs, ws):
    import math
    names = []
    for xv in xs:
        (var,) = list(xv.vars())
        names.append(var)
    A = [0.7, -0.4, 1.3, -1.1, 0.35, 0.9, -0.65, 1.7, -0.2, 0.55, -1.4, 0.8]
    Bv = [-0.5, 0.9, 0.6, 0.45, -0.8, -1.2, 0.3, -0.75, 1.1, -0.95, 0.5,
          -0.3]
    n = len(names)
    if n > len(A):
        return None
    tried = 0
    for seed in (41, 42):
        base = witness(seed)
        for pos in (False, True):
            for scale in (1.0, 1e-3, 1e3):
                a = [scale * (abs(v) if pos else v) for v in A[:n]]
                b = [scale * (abs(v) if pos else v) for v in Bv[:n]]
                e1, e2 = witness(seed), witness(seed)
                for k, nm in enumerate(names):
                    e1[nm] = a[k]
                    e2[nm] = b[k]
                try:
                    Ln = PA.num_eval(L, base)
                    wn = [PA.num_eval(to_rat(w), base) for w in ws]
                    g1 = [PA.num_eval_c(v, e1) for v in g]
                    g2 = [PA.num_eval_c(v, e2) for v in g]
                except (Undecided, ZeroDivisionError, ValueError,
                        OverflowError, KeyError):
                    continue
                if not all(math.isfinite(abs(z)) for z in g1 + g2):
                    continue
                tried += 1
                num = math.sqrt(sum(w * abs(p - q) ** 2
                                    for w, p, q in zip(wn, g1, g2)))
                den = math.sqrt(sum(w * (p - q) ** 2
                                    for w, p, q in zip(wn, a, b)))
                if num > Ln * den * (1 + 1e-9) + 1e-300:
                    return ('refuted', 'declared grad_lipschitz = %s (%.6g '
                            'at the witness) but ||grad f(x) - grad f(z)|| '
                            '/ ||x - z|| = %.6g at x = %s, z = %s' % (
                                _s(L), Ln, num / den,
                                ['%g' % v for v in a],
                                ['%g' % v for v in b]))
    if not tried:
        return None
    return ('held', '%d numeric point pairs' % tried)


def numerical_gradient(rep, model):
    """R5b: `NumericalGradient` evaluated with a symbolic step h on
    polynomial functionals over weighted model spaces: every entry is a
    rational function of h whose limit h -> 0 must be (d f / d x_j) / w_j,
    for the three difference methods."""
    DER = 'odl/solvers/functional/derivatives.py'
    ci = model.get('NumericalGradient')
    if ci is None:
        raise AnalysisError('anchor vanished: NumericalGradient')

    def inst(I, cls, *a, **k):
        return I.instantiate(model.get(cls), list(a), k)
    X = spaces()
    funs = {
        'L2NormSquared': lambda I, w: inst(I, 'L2NormSquared', X(w)),
        'QuadraticForm[vector, constant]': lambda I, w: inst(
            I, 'QuadraticForm', vector=sym_elem(X(w), 'b'),
            constant=Rat.var('c')),
        'L2NormSquared * PowerOperator(3)': lambda I, w: I.binop(
            ast.Mult, inst(I, 'L2NormSquared', X(w)),
            inst(I, 'PowerOperator', X(w), 3)),
    }
    n = 0
    h = Rat.var('h')
    for fname, mk in funs.items():
        for w in (None, 'const', 'array'):
            for method in ('forward', 'backward', 'central'):
                n += 1
                t = {None: 'unweighted', 'const': 'weight w',
                     'array': 'weights w0..w2'}[w]
                cons = 'NumericalGradient[%s,%s,%s]' % (fname, method, t)
                try:
                    H = H9()
                    H.signs.positive.add('h')
                    I = SMInterp(model, {}, H)
                    f = mk(I, w)
                    dom = I.getattr_value(f, 'domain')
                    ng = I.instantiate(ci, [f], {'method': method,
                                                 'step': h})
                    got = I.call(ng, [sym_elem(dom, 'x')], {})
                    if isinstance(got, NA):
                        got = H.element(I, dom, got)
                    gs = flat(got)
                    fx = PA.ired(to_rat(I.call(f, [sym_elem(dom, 'x')], {})))
                    xs = flat(sym_elem(dom, 'x'))
                    ws = entry_weights(dom)
                    bad = None
                    for j, (gv, xv, wj) in enumerate(zip(gs, xs, ws)):
                        (var,) = list(xv.vars())
                        want = mdiff.diff(fx, var) / wj
                        lim = PA.cancel_mono(PA.reduce_full(gv))
                        if 'h' in lim.d.subs({'h': Rat.const(0)}).vars() or \
                                lim.d.subs({'h': Rat.const(0)}).is_zero():
                            raise Undecided('limit h -> 0 of %r' % (gv,))
                        lim = lim.subs({'h': Rat.const(0)})
                        if not PA.same(lim, want, WIT):
                            bad = ('entry %d tends to %s for h -> 0, '
                                   '(df/dx_%d)/w_%d is %s' % (
                                       j, _s(PA.reduce_full(lim)), j, j,
                                       _s(PA.reduce_full(want))))
                            break
                    if bad:
                        rep.violation('R5b', cons, bad, DER,
                                      ci.node.lineno)
                    else:
                        rep.holds('R5b', cons, 'difference quotients tend '
                                  'to the Riesz representative')
                except (Undecided, Fork) as e:
                    rep.undecided('R5b', cons, str(e), DER)
                except NotAnElement as e:
                    rep.violation('R5b', cons, 'a call yields no element: '
                                  '%s' % e, DER)
                except PyRaise as e:
                    rep.violation('R5b', cons, 'raises %s at `%s`' % (
                        e.name, ast.unparse(e.node)[:70]
                        if e.node is not None else '?'), DER)
    rep.floor('R5b', 'numerical gradient evaluations', n, 27)


def _s(v):
    t = repr(v)
    return t if len(t) <= 200 else t[:200] + ' ...'


def run(rep, model):
    n = nl = 0
    for name, b in builders(model).items():
        n += 1
        rel, line = _where(model, name)
        try:
            from ..core import with_budget
            from ..forks import explore
            leaves = with_budget(lambda: explore(
                lambda a: evaluate(model, b, a), limit=8))
            r = leaves[0][1]
            for a_, r_ in leaves[1:]:
                # every outcome of a tolerance test must satisfy the rules
                for k_ in ('grad_bad', 'der_bad'):
                    r[k_] = list(r[k_]) + [
                        '%s [when %s]' % (m, '; '.join(
                            '%s is %s' % (str(q)[:70], v)
                            for q, v in a_.items())) for m in r_[k_]]
        except (Undecided, Fork) as e:
            rep.undecided('R6', name, str(e), rel)
            continue
        except PyRaise as e:
            rep.violation('R6', name, 'raises %s at `%s`' % (
                e.name, ast.unparse(e.node)[:70] if e.node is not None
                else '?'), rel, getattr(e.node, 'lineno', None))
            continue
        except NotAnElement as e:
            rep.violation('R6', name, 'a call yields no element: %s' % e,
                          rel)
            continue
        probs = list(r['grad_bad']) + list(r['der_bad'])
        for k in ('grad_exc', 'der_exc'):
            if k in r:
                e = r[k]
                probs.append('%s raises %s at `%s`' % (
                    k[:-4], e.name, ast.unparse(e.node)[:60]
                    if e.node is not None else '?'))
        if probs:
            rep.violation('R6', name, '; '.join(probs), rel, line)
        else:
            rep.holds('R6', name, 'gradient = differential / weights and '
                      'derivative(x)(d) = differential, for f(x) = %s'
                      % _s(r['fx']))
        lip = r.get('lip')
        if lip is not None:
            nl += 1
            if lip[0] == 'refuted':
                rep.violation('R3e', name, lip[1], rel, line)
            else:
                rep.holds('R3e', name, 'declared Lipschitz bound not '
                          'refuted: ' + lip[1])
    rep.floor('R6', 'evaluated functional instances', n, 90)
    rep.floor('R3e', 'declared Lipschitz bounds examined', nl, 40)
    numerical_gradient(rep, model)
