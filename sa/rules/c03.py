"""C03 -- operator call protocol: in-place equals out-of-place, input
untouched, result in range.  See DESIGN.md section C03."""
from __future__ import annotations

import ast

from ..core import Report, Undecided, AnalysisError
from ..srcmodel import Model, return_exprs
from ..effects import Analyzer, SUMMARIES
from ..paths import strip_doc

OPFILE = 'odl/operator/operator.py'

# Single named constructs reviewed by hand: (rule, class qualname) -> reason
EXCEPTIONS = {
    ('R3', 'proximal_huber.ProximalHuber'):
        'two complementary masked writes (mask, then logical_not(mask)) '
        'cover every entry before out is returned; no read of out',
    ('R3', 'ProductSpaceOperator'):
        'row bookkeeping: has_evaluated_row[i] selects assign-vs-accumulate '
        'per row and rows never evaluated are zeroed afterwards',
}

# Constructs that hand the buffers to third-party back ends
BACKEND = {
    'RayTransform': 'tomography back-end call_forward(x, out): third-party '
                    'kernel (ASTRA / skimage), outside the analysed program',
    'RayTransform.adjoint.RayBackProjection':
        'tomography back-end call_backward(x, out)',
}


_SET_ZERO_KILLS = True
_SET_ZERO_REGIME = None


def call_kind(fn):
    a = fn.args
    pos = [p.arg for p in a.args]
    kw = [p.arg for p in a.kwonlyargs]
    ndef = len(a.defaults)
    if 'out' in pos:
        i = pos.index('out')
        has_default = i >= len(pos) - ndef
        return 'dual' if has_default else 'inplace'
    if 'out' in kw:
        return 'dual'
    return 'oop'


def operator_classes(model):
    """(class, _call FunctionDef) pairs: every class defining _call, plus
    every subclass that inherits a _call which dispatches to self-methods
    the subclass overrides (e.g. the Fourier transform classes)."""
    out = []
    for c in model.classes.values():
        if c.name == 'Operator' or not model.is_subclass(c, 'Operator'):
            continue
        dc, fn = model.lookup(c, '_call')
        if not isinstance(fn, ast.FunctionDef) or dc.name == 'Operator':
            continue
        if dc is c:
            out.append((c, fn))
            continue
        called = {n.func.attr for n in ast.walk(fn)
                  if isinstance(n, ast.Call)
                  and isinstance(n.func, ast.Attribute)
                  and isinstance(n.func.value, ast.Name)
                  and n.func.value.id == 'self'}
        if any(model.lookup(c, m)[0] is not model.lookup(dc, m)[0]
               for m in called):
            out.append((c, fn))
    out.sort(key=lambda cf: (cf[0].rel, cf[0].node.lineno))
    return out


def check(ctx):
    rep = Report(
        'C03', ctx, 'proof',
        'Every _call of every Operator subclass outside contrib is analysed '
        'path by path with the effect/alias engine (E2): no write effect '
        'reaches the input (R2), on the in-place arm the first effect on '
        'out is a full write -- previous contents are never read (R3), the '
        'in-place arm returns None/out and the out-of-place arm returns a '
        'value on every path (R4); Operator.__call__ performs the domain, '
        'range and return-identity checks in the required order (R6) and '
        'the default bridges assign into / allocate from the range (R7).  '
        'R10: both arms of ProductSpaceOperator._call compute the block '
        'matrix-vector product for every storage order of the blocks '
        '(row-major, column-major as built by adjoint, unsorted, empty '
        'rows), evaluated in the free vector-space algebra.',
        ['CPython ast', 'effect table of the element/array API '
         '(sa/effects.py)', 'summaries of finite_diff, resize_array, '
         'point_collocation, pyfftw_call, dft_pre/postprocess_data',
         'third-party tomography back ends write and return their out'],
        ['that a conversion succeeds for a particular input',
         'numerical equality of arms that call different NumPy kernels'])
    model = Model(ctx)
    ops = operator_classes(model)
    rep.floor('R2', 'Operator subclasses with _call', len(ops), 105)
    kinds = {'dual': 0, 'inplace': 0, 'oop': 0}
    # kill semantics of set_zero() derived from _lincomb_impl (C01 engine)
    from .c01 import set_zero_kills
    try:
        kills, regime = set_zero_kills(ctx, model)
    except Undecided as e:
        raise AnalysisError('cannot derive the semantics of set_zero(): %s'
                            % e)
    rep.analysed['set_zero_kills_old_content'] = kills
    global _SET_ZERO_KILLS, _SET_ZERO_REGIME
    _SET_ZERO_KILLS, _SET_ZERO_REGIME = kills, regime
    for ci, fn in ops:
        kind = call_kind(fn)
        kinds[kind] += 1
        _check_call(rep, model, ci, fn, kind)
    rep.count('calls_dual', kinds['dual'])
    rep.count('calls_inplace', kinds['inplace'])
    rep.count('calls_oop', kinds['oop'])
    _positive_control(rep, model)
    _call_ordering(ctx, rep)
    _destructive_kernels(ctx, rep, model)
    _attribute_definedness(rep, model, ops)
    _block_call(rep, model)
    from . import c03b
    c03b.run(rep, model)
    # R12: `whatever y contained before` includes y = x when domain and range
    # coincide: op(x, out=x) holds the values of op(x) (evaluated aliased
    # calls, shared with C10-R3)
    from . import c10b
    c10b.run(rep, model, rule='R12', floor=80)
    return rep


def _attribute_definedness(rep, model, ops):
    """R9 (E12): every self.X read in a _call resolves in the class."""
    from ..selfattr import undefined_reads
    n = 0
    for ci, fn in ops:
        r = undefined_reads(model, ci, fn)
        if r is None:
            continue
        n += 1
        cons = '%s._call' % ci.qual
        if r:
            ln, attr = r[0]
            rep.violation(
                'R9', cons,
                '`self.%s` is read, but no class in the MRO of %s defines '
                'it (in a closure class `self` is the operator, not the '
                'enclosing object): the call raises AttributeError'
                % (attr, ci.name), ci.rel, ln)
        else:
            rep.holds('R9', cons, 'every self attribute read is defined')
    rep.floor('R9', '_call definitions with resolvable MRO', n, 90)


def _destructive_kernels(ctx, rep, model):
    """R8: the operator input must not be handed to a kernel that destroys
    its input.  The one such kernel is FFTW's multi-dimensional
    complex-to-real transform (third arm of the repository's own
    ``_pyfftw_destroys_input``: backward and halfcomplex and ndim != 1)."""
    from .c18 import _admissible
    PYF = 'odl/trafos/backends/pyfftw_bindings.py'
    d = ctx.func(PYF, '_pyfftw_destroys_input')
    src = ast.unparse(d)
    if not ('backward' in src and 'halfcomplex' in src and 'ndim' in src):
        raise AnalysisError('anchor changed: _pyfftw_destroys_input no '
                            'longer states the c2r condition')
    n = 0
    for cname in ('DiscreteFourierTransform',
                  'DiscreteFourierTransformInverse', 'FourierTransform',
                  'FourierTransformInverse'):
        ci = model.get(cname)
        dc, fn = model.lookup(ci, '_call_pyfftw')
        if not isinstance(fn, ast.FunctionDef):
            continue
        xn = fn.args.args[1].arg
        cons = '%s._call_pyfftw' % cname
        calls = [c for c in ast.walk(fn) if isinstance(c, ast.Call)
                 and ast.unparse(c.func) == 'pyfftw_call']
        for c in calls:
            n += 1
            a0 = c.args[0] if c.args else None
            raw = isinstance(a0, ast.Name) and a0.id == xn
            # a copy taken on the halfcomplex path before the call?
            copied = any(
                isinstance(s_, ast.Assign) and ast.unparse(s_.targets[0])
                == xn and ast.unparse(s_.value) in ('%s.copy()' % xn,
                                                    'np.copy(%s)' % xn)
                and s_.lineno < c.lineno for s_ in ast.walk(fn))
            can_c2r = False
            inverse = 'Inverse' in cname
            for sign in ('-', '+'):
                for hc in (True,):
                    if not _admissible(model, cname, sign, hc):
                        continue
                    if (not inverse and sign == '+') or (inverse
                                                         and sign == '-'):
                        continue      # halfcomplex fixes the direction
                    if sign == '+':
                        can_c2r = True
            if raw and can_c2r and not copied:
                rep.violation(
                    'R8', cons,
                    'the operator input array `%s` itself is passed to '
                    'pyfftw_call, and this class admits direction=backward '
                    'with halfcomplex=True: FFTW\'s multi-dimensional c2r '
                    'transform destroys its input (see '
                    '_pyfftw_destroys_input), so x is modified by op(x)'
                    % xn, dc.rel, c.lineno)
            else:
                rep.holds('R8', cons, 'input %s' % (
                    'is a temporary' if not raw else
                    'copied before a c2r transform' if copied else
                    'never reaches a c2r transform'))
    rep.floor('R8', 'pyfftw_call sites in transform classes', n, 4)


def _tracked(fn):
    pos = [p.arg for p in fn.args.args]
    tr = {}
    if len(pos) > 1:
        tr[pos[1]] = 'X'
    return tr, (pos[1] if len(pos) > 1 else None)


def _check_call(rep, model, ci, fn, kind, controls=None):
    q = ci.qual
    rel = ci.rel
    tr, xn = _tracked(fn)
    modes = {'dual': (True, False), 'inplace': (True,),
             'oop': (False,)}[kind]
    for inplace in modes:
        tracked = dict(tr)
        forced = {}
        if kind != 'oop':
            if inplace:
                tracked['out'] = 'OUT'
            forced['out is None'] = not inplace
            forced['out is not None'] = inplace
        if xn:
            forced['%s is None' % xn] = False
            forced['%s is not None' % xn] = True
        arm = 'ip' if inplace else 'oop'
        try:
            an = Analyzer(model, ci, fn, tracked, forced,
                          set_zero_kills=_SET_ZERO_KILLS)
            paths = an.run()
        except Undecided as e:
            rep.undecided('R2', '%s._call:%s' % (q, arm), str(e), rel,
                          fn.lineno)
            continue
        live = [p for p in paths if not p.raised]
        rep.count('paths', len(paths))
        # ---- R2 input untouched ---------------------------------------------
        bad = None
        for p in live:
            for e in p.events:
                if e.cell == 'X' and e.kind in ('W', 'PW', 'RMW'):
                    bad = e
                    break
            if bad:
                break
        cons = '%s._call' % q
        if bad is not None:
            rep.violation('R2', cons, 'the input is written (%s): `%s`'
                          % (bad.kind, bad.text), rel, bad.line)
        else:
            rep.holds('R2', cons + ':' + arm,
                      'no write effect reaches the input on %d paths'
                      % len(live))
        # ---- unknown callees ------------------------------------------------
        unk = [u for p in live for u in p.unknown]
        if unk and q not in BACKEND:
            rep.undecided('R3', cons + ':' + arm,
                          'buffer handed to an unknown callee: %s'
                          % unk[0][1], rel, unk[0][0])
            continue
        if inplace:
            _r3(rep, ci, fn, q, live)
            _r4_inplace(rep, ci, fn, q, live)
        else:
            _r4_oop(rep, ci, fn, q, live, paths)


def _r3(rep, ci, fn, q, live):
    cons = '%s._call' % q
    rel = ci.rel
    if q in BACKEND:
        rep.holds('R3', cons, 'exempt: ' + BACKEND[q])
        return
    worst = None
    for p in live:
        outev = [e for e in p.events if e.cell == 'OUT']
        if not outev:
            # never touched: acceptable only if the path returns a call that
            # got out=out (handled as W) -- so this is a definite miss
            worst = worst or ('never', None, p)
            continue
        first = outev[0]
        if first.kind == 'W':
            continue
        if first.kind == 'PW':
            # covering candidates: component loop; real+imag pair
            if first.loop:
                continue
            pws = [e for e in outev if e.kind == 'PW']
            txt = ' '.join(e.text for e in pws[:2])
            if '.real' in txt and '.imag' in txt and all(
                    e.kind == 'PW' for e in outev[:2]):
                continue
            worst = worst or ('partial', first, p)
            continue
        worst = ('read', first, p)
        break
    if worst is None:
        rep.holds('R3', cons, 'out is fully written before any read on %d '
                  'paths' % len(live))
        return
    if ('R3', q) in EXCEPTIONS:
        rep.holds('R3', cons, 'excepted: ' + EXCEPTIONS[('R3', q)])
        return
    kind, e, p = worst
    if kind == 'never':
        rep.violation('R3', cons, 'a path of the in-place arm never writes '
                      'out (assumptions %s)' % _short(p.assume), rel,
                      fn.lineno)
    elif kind == 'partial':
        rep.violation('R3', cons, 'first effect on out is a partial write '
                      'that is not part of a covering sequence: `%s`'
                      % e.text, rel, e.line)
    else:
        extra = ''
        if 'set_zero' in e.text and not _SET_ZERO_KILLS:
            extra = (' -- set_zero() is lincomb(0, x, 0, x, out=x), which '
                     'in the %s regime of _lincomb_impl computes 0*x + 0*x '
                     'and keeps NaN/inf' % _SET_ZERO_REGIME)
        rep.violation('R3', cons, 'the previous contents of out are read '
                      '(%s) before out is fully written: `%s`%s'
                      % (e.kind, e.text, extra), rel, e.line)


def _short(a):
    return {k[:40]: v for k, v in list(a.items())[:4]}


def _r4_inplace(rep, ci, fn, q, live):
    cons = '%s._call' % q
    rel = ci.rel
    if q in BACKEND:
        rep.holds('R4', cons + ':ip', 'exempt: ' + BACKEND[q])
        return
    for p in live:
        for ln, v, al in p.returns:
            if v is None:
                continue
            if al is not None and al[0] == 'OUT' and isinstance(
                    v, ast.Name):
                if v.id == 'out' or al[2] == 'out' and not al[1] and \
                        _is_same_object(fn, v.id):
                    continue
                rep.violation(
                    'R4', cons,
                    'in-place arm returns `%s`, an alias of out that is not '
                    'the object `out` itself: Operator.__call__ rejects it '
                    '("returned a different value than `out`")' % v.id,
                    rel, ln)
                return
            if al is not None and al[0] == 'OUT' and len(al) > 3 and \
                    isinstance(v, ast.Subscript) and ast.unparse(
                        v.slice) == '0' and not al[1]:
                continue        # part 0 of the one-element wrapper: out
            if isinstance(v, ast.Call):
                outs = [k for k in v.keywords if k.arg == 'out']
                if outs and isinstance(outs[0].value, ast.Name) and \
                        outs[0].value.id == 'out':
                    f = v.func
                    # operator calls / ufunc wrappers / element methods hand
                    # back their own out argument; repository helpers by
                    # summary
                    if isinstance(f, ast.Name) and f.id in SUMMARIES:
                        if SUMMARIES[f.id].get('__returns__') in ('out',):
                            continue
                    elif isinstance(f, ast.Name):
                        rc = getattr(v, '_ret_cells', None)
                        if rc and all(a is not None and a[0] == 'OUT'
                                      and not a[1] for _, _, a in rc):
                            continue
                    else:
                        continue
                if outs and not (isinstance(outs[0].value, ast.Name)
                                 and outs[0].value.id == 'out'):
                    nm = ast.unparse(outs[0].value)
                    rep.violation(
                        'R4', cons,
                        'in-place arm returns the result of a call that was '
                        'given `out=%s`, which is not the object `out`: '
                        'Operator.__call__ rejects the returned value' % nm,
                        rel, ln)
                    return
            rep.violation('R4', cons, 'in-place arm returns `%s`, which is '
                          'neither None nor out' % ast.unparse(v)[:60],
                          rel, ln)
            return
    rep.holds('R4', cons + ':ip', 'returns None or out on every path')


def _is_same_object(fn, name):
    """``name`` bound by plain assignment ``name = out``."""
    for s in ast.walk(fn):
        if isinstance(s, ast.Assign) and len(s.targets) == 1 and isinstance(
                s.targets[0], ast.Name) and s.targets[0].id == name:
            if not (isinstance(s.value, ast.Name) and s.value.id == 'out'):
                return False
    return True


def _r4_oop(rep, ci, fn, q, live, paths):
    cons = '%s._call' % q
    rel = ci.rel
    for p in live:
        if not p.returns:
            rep.violation('R4', cons, 'out-of-place arm can fall off the end '
                          'without returning a value (assumptions %s): '
                          'Operator.__call__ would wrap an uninitialised '
                          'element' % _short(p.assume), rel, fn.lineno)
            return
        for ln, v, al in p.returns:
            if v is None or (isinstance(v, ast.Constant)
                             and v.value is None):
                rep.violation('R4', cons, 'out-of-place arm returns None',
                              rel, ln)
                return
    rep.holds('R4', cons + ':oop', 'returns a value on every path')


# --------------------------------------------------------------------------
def _positive_control(rep, model):
    """The zero-expected rules must fire on a synthetic _call."""
    src = '''
class _Ctl(object):
    def _call(self, x, out):
        x *= 2
        out += x
        return x
'''
    tree = ast.parse(src)
    fn = tree.body[0].body[0]

    class FakeCI(object):
        qual = '_Ctl'
        name = '_Ctl'
        rel = '<control>'
        methods = {'_call': fn}

        def is_property(self, n):
            return False

    class FakeModel(object):
        func_by_name = {}

        def lookup(self, ci, attr):
            return None, None
    an = Analyzer(FakeModel(), FakeCI(), fn, {'x': 'X', 'out': 'OUT'},
                  {'out is None': False})
    paths = an.run()
    ev = paths[0].events
    ok_r2 = any(e.cell == 'X' and e.kind == 'RMW' for e in ev)
    outev = [e for e in ev if e.cell == 'OUT']
    ok_r3 = bool(outev) and outev[0].kind == 'RMW'
    if not (ok_r2 and ok_r3):
        raise AnalysisError('positive control of the effect rules failed: '
                            '%r' % ev)
    rep.holds('R2', 'positive-control', 'synthetic _call writing x and '
              'consuming out is flagged')


# --------------------------------------------------------------------------
def _call_ordering(ctx, rep):
    """R6/R7: checks in Operator.__call__ and the default bridges, as a path
    rule over every path of ``__call__``."""
    from ..paths import walk_paths
    fn = ctx.method(OPFILE, 'Operator', '__call__')
    cons = 'Operator.__call__'
    params = [a.arg for a in fn.args.args]
    xn = params[1]

    def has_call(node, attr):
        return any(isinstance(n, ast.Call) and isinstance(
            n.func, ast.Attribute) and n.func.attr == attr
            for n in ast.walk(node))

    def is_test(t, left, container, neg=True):
        """`left not in container` (neg) / `left in container`"""
        return (isinstance(t, ast.Compare) and len(t.ops) == 1
                and isinstance(t.ops[0], ast.NotIn if neg else ast.In)
                and ast.unparse(t.left) == left
                and ast.unparse(t.comparators[0]) == container)

    try:
        paths = walk_paths(strip_doc(fn.body))
    except Undecided as e:
        rep.undecided('R6', cons, str(e), OPFILE, fn.lineno)
        paths = []
    probs = []
    n_ip = n_oop = 0
    for p in paths:
        # index of the dispatch calls on this path
        idx_ip = idx_oop = None
        for i, ev in enumerate(p):
            if ev[0] == 'stmt' and has_call(ev[1], '_call_in_place'):
                idx_ip = i
            if ev[0] == 'stmt' and has_call(ev[1], '_call_out_of_place'):
                idx_oop = i
        if idx_ip is None and idx_oop is None:
            continue
        k = idx_ip if idx_ip is not None else idx_oop
        before = p[:k]
        after = p[k + 1:]
        # domain: either `x not in self.domain` was False, or it was True
        # and x was rebound through self.domain.element(x) (a failed cast
        # raises OpDomainError in the handler)
        dom = [ev for ev in before if ev[0] == 'assume' and isinstance(
            ev[1], ast.AST) and not isinstance(ev[1], ast.ExceptHandler)
            and is_test(ev[1], xn, 'self.domain')]
        if not dom:
            probs.append('a path reaches the dispatch without the domain '
                         'membership test')
        elif dom[0][2]:
            cast = any(ev[0] == 'stmt' and isinstance(ev[1], ast.Assign)
                       and ast.unparse(ev[1].targets[0]) == xn
                       and ast.unparse(ev[1].value) ==
                       'self.domain.element(%s)' % xn for ev in before)
            handler = any(ev[0] == 'assume' and isinstance(
                ev[1], ast.ExceptHandler) for ev in before)
            if not cast and not handler:
                probs.append('input outside the domain is dispatched '
                             'without a cast')
        if idx_ip is not None:
            n_ip += 1
            ran = [ev for ev in before if ev[0] == 'assume' and not
                   isinstance(ev[1], ast.ExceptHandler)
                   and is_test(ev[1], 'out', 'self.range')]
            if not ran or ran[0][2] is not False:
                probs.append('the in-place dispatch is reached without the '
                             '`out not in self.range` test having failed')
            fun = [ev for ev in before if ev[0] == 'assume' and not
                   isinstance(ev[1], ast.ExceptHandler)
                   and ast.unparse(ev[1]) == 'self.is_functional']
            if not fun or fun[0][2] is not False:
                probs.append('the in-place dispatch is reached for a '
                             'functional')
            # after: identity test, then return out
            term = p[-1]
            if term[0] == 'return':
                idt = [ev for ev in after if ev[0] == 'assume' and not
                       isinstance(ev[1], ast.ExceptHandler)
                       and any(isinstance(n, ast.Compare) and any(
                           isinstance(o, ast.IsNot) for o in n.ops)
                           and ast.unparse(n.comparators[0]) == 'out'
                           for n in ast.walk(ev[1]))]
                if not idt:
                    probs.append('the in-place arm returns without the '
                                 'return-identity test')
                if not (isinstance(term[1].value, ast.Name)
                        and term[1].value.id == 'out'):
                    probs.append('the in-place arm returns %s, not out'
                                 % ast.unparse(term[1].value))
        else:
            n_oop += 1
            term = p[-1]
            if term[0] == 'return':
                rng = [ev for ev in after if ev[0] == 'assume' and not
                       isinstance(ev[1], ast.ExceptHandler)
                       and is_test(ev[1], 'out', 'self.range')]
                if not rng:
                    probs.append('the out-of-place result is returned '
                                 'without a range membership test')
                elif rng[0][2]:
                    cast = any(ev[0] == 'stmt' and isinstance(
                        ev[1], ast.Assign) and ast.unparse(ev[1].value) ==
                        'self.range.element(out)' for ev in after)
                    handler = any(ev[0] == 'assume' and isinstance(
                        ev[1], ast.ExceptHandler) for ev in after)
                    if not cast and not handler:
                        probs.append('an out-of-place result outside the '
                                     'range is returned without a cast')
    raises = {ast.unparse(n.exc.func) for n in ast.walk(fn)
              if isinstance(n, ast.Raise) and isinstance(n.exc, ast.Call)}
    for need in ('OpDomainError', 'OpRangeError'):
        if need not in raises:
            probs.append('%s is never raised' % need)
    if n_ip == 0 or n_oop == 0:
        rep.undecided('R6', cons, 'dispatch calls not found (%d in-place, '
                      '%d out-of-place paths)' % (n_ip, n_oop), OPFILE,
                      fn.lineno)
    elif probs:
        rep.violation('R6', cons, '; '.join(sorted(set(probs))), OPFILE,
                      fn.lineno)
    else:
        rep.holds('R6', cons, 'on all %d in-place and %d out-of-place paths:'
                  ' domain test/cast -> range test on out -> dispatch -> '
                  'return-identity test / range cast' % (n_ip, n_oop))
    # R7 default bridges, by value capture: what is assigned into `out` is
    # the out-of-place result *converted to a range element* (an out-of-place
    # `_call` may return a raw array), what is returned by the out-of-place
    # bridge is the range element that the in-place `_call` received
    from ..symex import Interp, Hooks, Rec, Builtin, Func, PyRaise
    from ..srcmodel import Model as _Model

    class BH(Hooks):
        def on_getattr(self, interp, obj, name):
            if isinstance(obj, Rec) and name in obj.attrs:
                return obj.attrs[name]
            return NotImplemented
    model = _Model(ctx)
    ip = ctx.func(OPFILE, '_default_call_in_place')
    oop = ctx.func(OPFILE, '_default_call_out_of_place')
    if ip is None or oop is None:
        raise AnalysisError('anchor vanished: default call bridges')
    # ---- in place
    try:
        seen = {}
        raw = Rec('raw-result')
        rng = Rec('range', element=Builtin('element', lambda v=None: Rec(
            'range-element', of=v)))
        xin = Rec('x')

        def oop_call(x, **kw):
            seen['oop_x'] = x
            seen['oop_kw'] = kw
            return raw
        op = Rec('op', range=rng, _call_out_of_place=Builtin('oop',
                                                             oop_call))
        out = Rec('out', assign=Builtin('assign', lambda v: seen.__setitem__(
            'assigned', v)))
        I = Interp(model, {}, BH())
        I.call_func(Func(ip, I.env_of(OPFILE), None), [op, xin, out],
                    {'opt': 7})
        a = seen.get('assigned')
        probs = []
        if seen.get('oop_x') is not xin:
            probs.append('the out-of-place call does not receive x')
        if seen.get('oop_kw') != {'opt': 7}:
            probs.append('keyword arguments are not forwarded')
        if a is None:
            probs.append('nothing is assigned into out')
        elif not (isinstance(a, Rec) and a.kind == 'range-element' and
                  a.attrs['of'] is raw):
            probs.append('the value assigned into out is %r, not the '
                         'out-of-place result converted by range.element '
                         '(a raw array result cannot be assigned)' % (a,))
        if probs:
            rep.violation('R7', '_default_call_in_place', '; '.join(probs),
                          OPFILE, ip.lineno)
        else:
            rep.holds('R7', '_default_call_in_place', 'assigns range.element('
                      'out-of-place result) into out')
    except (Undecided, PyRaise) as e:
        rep.undecided('R7', '_default_call_in_place', str(e), OPFILE,
                      ip.lineno)
    # ---- out of place
    try:
        seen = {}
        made = []

        def element(v=None):
            r = Rec('range-element', of=v)
            made.append(r)
            return r
        rng = Rec('range', element=Builtin('element', element))
        xin = Rec('x')

        def ip_call(x, out=None, **kw):
            seen['ip'] = (x, out, kw)
            return None
        op = Rec('op', range=rng, _call_in_place=Builtin('ip', ip_call))
        I = Interp(model, {}, BH())
        r = I.call_func(Func(oop, I.env_of(OPFILE), None), [op, xin],
                        {'opt': 7})
        probs = []
        if len(made) != 1 or made[0].attrs['of'] is not None:
            probs.append('does not allocate one fresh range element')
        elif 'ip' not in seen or seen['ip'][0] is not xin or \
                seen['ip'][1] is not made[0] or seen['ip'][2] != {'opt': 7}:
            probs.append('the in-place call does not receive (x, the '
                         'allocated element, kwargs)')
        elif r is not made[0]:
            probs.append('returns %r instead of the element that was '
                         'written' % (r,))
        if probs:
            rep.violation('R7', '_default_call_out_of_place',
                          '; '.join(probs), OPFILE, oop.lineno)
        else:
            rep.holds('R7', '_default_call_out_of_place', 'allocates from '
                      'the range, fills it in place, returns it')
    except (Undecided, PyRaise) as e:
        rep.undecided('R7', '_default_call_out_of_place', str(e), OPFILE,
                      oop.lineno)


# --------------------------------------------------------------------------
# R10: block operators -- both arms of ProductSpaceOperator._call compute the
# block matrix-vector product for every storage order of the blocks
def _block_call(rep, model):
    from ..symex import Interp, Inst, Vec, PVec, SpaceV, Rec, PyRaise
    from ..opalg import OpHooks
    from .. import vs
    PSO = 'odl/operator/pspace_ops.py'
    ci = model.get('ProductSpaceOperator')
    if ci is None or '_call' not in ci.methods:
        raise AnalysisError('anchor vanished: ProductSpaceOperator._call')
    line = ci.methods['_call'].lineno

    class BH(OpHooks):
        def on_getattr(self, interp, obj, name):
            if isinstance(obj, Rec) and name in obj.attrs:
                return obj.attrs[name]
            return OpHooks.on_getattr(self, interp, obj, name)

    layouts = [
        ('row-major 2x2', [0, 0, 1, 1], [0, 1, 0, 1]),
        ('column-major 2x2 (as built by adjoint)', [0, 1, 0, 1],
         [0, 0, 1, 1]),
        ('unsorted with repeated row', [1, 0, 1, 0, 1], [0, 0, 1, 1, 0]),
        ('empty second row', [0, 0], [0, 1]),
        ('empty first row', [1], [1]),
        ('single column', [0, 1], [0, 0]),
    ]
    n = 0
    for lname, rows, cols in layouts:
        for with_out in (False, True):
            cons = 'ProductSpaceOperator._call[%s,%s]' % (
                lname, 'in-place' if with_out else 'out-of-place')
            n += 1
            try:
                I = Interp(model, {}, BH())
                Xs = [SpaceV('X%d' % j, 'R') for j in range(2)]
                Ys = [SpaceV('Y%d' % i, 'R') for i in range(2)]
                dom = SpaceV('X0xX1', 'R')
                dom.parts = Xs
                ran = SpaceV('Y0xY1', 'R')
                ran.parts = Ys
                ops = [I.opsym('A%d' % k, Xs[c], Ys[r], True)
                       for k, (r, c) in enumerate(zip(rows, cols))]
                inst = Inst(ci)
                inst.attrs['_ProductSpaceOperator__ops'] = Rec(
                    'COOMatrix', data=list(ops), row=list(rows),
                    col=list(cols), shape=(2, 2))
                inst.attrs['_Operator__domain'] = dom
                inst.attrs['_Operator__range'] = ran
                inst.attrs['_Operator__is_linear'] = True
                inst.attrs['_Operator__is_functional'] = False
                x = PVec([Vec(vs.sym('x%d' % j), Xs[j]) for j in range(2)],
                         dom)
                kw = {}
                out = None
                if with_out:
                    out = PVec([Vec(vs.sym('old%d' % i), Ys[i])
                                for i in range(2)], ran)
                    kw['out'] = out
                res = I.call(I.getattr_value(inst, '_call'), [x], kw)
                if with_out and res is not None and res is not out:
                    rep.violation('R10', cons, 'returns another object '
                                  'than `out`', PSO, line)
                    continue
                got = out if with_out else res
                probs = []
                for i in range(2):
                    want = {}
                    for k, (r, c) in enumerate(zip(rows, cols)):
                        if r == i:
                            want = vs.add(want, ops[k].term.apply(
                                x.parts[c].val), 1)
                    g = got.parts[i].val
                    if vs.freeze(g) != vs.freeze(want):
                        probs.append('row %d is %s, the block product is %s'
                                     % (i, vs.show(g), vs.show(want)))
                if probs:
                    rep.violation('R10', cons, '; '.join(probs[:2]), PSO,
                                  line)
                else:
                    rep.holds('R10', cons, 'rows are the sums of their '
                              'blocks')
            except Undecided as e:
                rep.undecided('R10', cons, str(e), PSO, line)
            except PyRaise as e:
                rep.violation('R10', cons, 'raises %s' % e.name, PSO, line)
    rep.floor('R10', 'block layouts', n, 12)
