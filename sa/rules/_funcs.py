"""Shared evaluation of derived functionals on the quadratic model (used by
C07, C08, C09)."""
from __future__ import annotations

import ast

from ..core import Undecided
from ..forks import explore
from ..ratfun import Rat
from .. import vs
from ..symex import (Inst, OpV, Vec, Func, Builtin, PyRaise, is_scalar,
                     to_rat)
from ..opalg import apply
from ..quadmodel import (QHooks, QInterp, Quad, OFun1, coef, vec, W, T, E,
                         sqrt_reduce)

FUNF = 'odl/solvers/functional/functional.py'
DEFF = 'odl/solvers/functional/default_functionals.py'
PROXF = 'odl/solvers/nonsmooth/proximal_operators.py'


class Ctx(object):
    def __init__(self, model, assume):
        self.model = model
        self.h = QHooks()
        self.I = QInterp(model, assume, self.h)
        self.X = self.h.X
        self.I.real_scalars.update({'w', 's', 'q', 'k', 't', 'sigma'})

    def f(self, name='f'):
        return self.h.leaf(self.I, name)

    def v(self, name):
        return vec(Rat.var(name), self.X)

    def inst(self, cls, *a, **k):
        return self.I.instantiate(self.model.get(cls), list(a), k)

    def lin(self, name='l'):
        c = Rat.var(name)
        return OpV(OFun1(lambda t, c=c: c * t, True, name), self.X, self.X,
                   True)


def instances():
    """name -> (builder(ctx) -> functional instance, which aspects apply)."""
    s, q, k = Rat.var('s'), Rat.var('q'), Rat.var('k')
    B = {}
    B['FunctionalLeftScalarMult'] = (
        lambda c: c.inst('FunctionalLeftScalarMult', c.f(), s), 'gcpl')
    B['FunctionalRightScalarMult'] = (
        lambda c: c.inst('FunctionalRightScalarMult', c.f(), s), 'gcpl')
    B['FunctionalSum'] = (
        lambda c: c.inst('FunctionalSum', c.f(), c.f('g')), 'gl')
    B['FunctionalScalarSum'] = (
        lambda c: c.inst('FunctionalScalarSum', c.f(), k), 'gcpl')
    B['FunctionalTranslation'] = (
        lambda c: c.inst('FunctionalTranslation', c.f(), c.v('y')), 'gcpl')
    B['FunctionalTranslation:nested'] = (
        lambda c: c.inst('FunctionalTranslation', c.inst(
            'FunctionalTranslation', c.f(), c.v('y')), c.v('z')), 'gcpl')
    B['FunctionalQuadraticPerturb[q=0,u]'] = (
        lambda c: c.inst('FunctionalQuadraticPerturb', c.f(), 0, c.v('u'),
                         k), 'gcpl')
    B['FunctionalQuadraticPerturb[q=0,u=None]'] = (
        lambda c: c.inst('FunctionalQuadraticPerturb', c.f(), 0, None, k),
        'gcpl')
    B['FunctionalQuadraticPerturb[q,u]'] = (
        lambda c: c.inst('FunctionalQuadraticPerturb', c.f(), q, c.v('u'),
                         k), 'gpl')
    B['FunctionalQuadraticPerturb[q,u=None]'] = (
        lambda c: c.inst('FunctionalQuadraticPerturb', c.f(), q, None, 0),
        'gpl')
    B['FunctionalComp'] = (
        lambda c: c.inst('FunctionalComp', c.f(), c.lin()), 'g')
    B['FunctionalRightVectorMult'] = (
        lambda c: c.inst('FunctionalRightVectorMult', c.f(), c.v('v')),
        'gc')
    B['InfimalConvolution'] = (
        lambda c: c.inst('InfimalConvolution', c.f(), c.f('g')), 'C')
    B['FunctionalProduct'] = (
        lambda c: c.inst('FunctionalProduct', c.f(), c.f('g')), 'g')
    B['FunctionalQuotient'] = (
        lambda c: c.inst('FunctionalQuotient', c.f(), c.f('g')), 'g')
    B['BregmanDistance'] = (
        lambda c: c.inst('BregmanDistance', c.f(), c.v('p'), c.v('r')),
        'gcpl')
    B['FunctionalDefaultConvexConjugate'] = (
        lambda c: c.inst('FunctionalDefaultConvexConjugate', c.f()), 'P')
    B['L2NormSquared'] = (lambda c: c.inst('L2NormSquared', c.X), 'gcpl')
    B['ConstantFunctional'] = (
        lambda c: c.inst('ConstantFunctional', c.X, k), 'gpl')
    B['ZeroFunctional'] = (lambda c: c.inst('ZeroFunctional', c.X), 'gpl')
    B['QuadraticForm[op]'] = (
        lambda c: c.inst('QuadraticForm', c.inst('ScalingOperator', c.X,
                                                 Rat.var('m'))), 'gc')
    B['QuadraticForm[op,vector]'] = (
        lambda c: c.inst('QuadraticForm', c.inst(
            'ScalingOperator', c.X, Rat.var('m')), c.v('v'), k), 'gc')
    B['QuadraticForm[vector]'] = (
        lambda c: c.inst('QuadraticForm', None, c.v('v'), k), 'g')
    # functional arithmetic through the dunders (C04 verified them)
    B['expr:3*f(.-y)+k'] = (
        lambda c: c.I.binop(ast.Add, c.I.binop(ast.Mult, 3, c.inst(
            'FunctionalTranslation', c.f(), c.v('y'))), k), 'gcpl')
    B['expr:(f*s).translated(y)'] = (
        lambda c: c.I.call(c.I.getattr_value(c.I.binop(
            ast.Mult, c.f(), s), 'translated'), [c.v('y')], {}), 'gcpl')
    return B


def evaluate(model, builder, aspect, unknown=()):
    """Returns list of result dicts (one per fork leaf).  `unknown`: leaves
    whose grad_lipschitz is nan (no bound declared)."""
    def once(assume):
        c = Ctx(model, assume)
        c.h.unknown_lipschitz = set(unknown)
        I = c.I
        D = builder(c)
        x = vec(T, c.X)
        res = {}
        if aspect in 'gcpl':
            den = to_rat(apply(I, D, x))
            res['den'] = den
        if aspect == 'g':
            G = I.getattr_value(D, 'gradient')
            got = coef(apply(I, G, x))
            want = res['den'].diff('t') / W
            res['got'], res['want'] = got, want
        elif aspect in ('c', 'C'):
            Cj = I.getattr_value(D, 'convex_conj')
            y = vec(T, c.X)
            got = to_rat(apply(I, Cj, y))
            if aspect == 'c':
                want = Quad.of(res['den']).conj().value(T)
            else:
                # infimal convolution: conj = f* + g*
                want = c.f().quad.conj().value(T) + c.f('g').quad.conj(
                    ).value(T)
            res['got'], res['want'] = got, want
        elif aspect in ('p', 'P'):
            Pf = I.getattr_value(D, 'proximal')
            sig = Rat.var('sigma')
            P = I.call(Pf, [sig], {})
            got = coef(apply(I, P, x))
            if aspect == 'p':
                qd = Quad.of(res['den'])
            else:
                qd = c.f().quad.conj()
            want = qd.prox(sig, T)
            res['got'], res['want'] = got, want
        elif aspect == 'l':
            L = I.getattr_value(D, 'grad_lipschitz')
            res['got'] = L
            res['want'] = Quad.of(res['den']).lipschitz()
        return res
    return [r for a, r in explore(once, limit=40)]


def equal(a, b):
    a, b = to_rat(a), to_rat(b)
    d = a - b
    n = sqrt_reduce(Rat(d.n))
    return n.is_zero()
