"""C05, evaluated tier: concrete operator classes are instantiated on small
model spaces (symbolic entries, symbolic positive weights, real and complex
dtypes), applied to symbolic elements, and the adjoint identity
``<A x, y>_range = <x, A* y>_domain`` is checked as an identity in all
entries, weights and parameters (real parts when exactly one of the two
spaces is real: the R-linear adjoint)."""
from __future__ import annotations

import ast

import numpy as _np

from ..core import Undecided, AnalysisError
from ..forks import Fork
from ..ratfun import Rat
from ..symex import (Inst, Func, Builtin, Rec, PyRaise, is_scalar, to_rat)
from ..namodel import NA, DT, objarr
from ..spacemodel import NotAnElement
from ..spacemodel import (SMHooks, SMInterp, NSpace, NPSpace, NField, NElem,
                          NPElem, sym_elem, inner, flat, IU)
from .. import posalg as PA
from ..posalg import Signs

DOPS = 'odl/operator/default_ops.py'


def witness(seed):
    import zlib

    class Env(dict):
        def __missing__(self, k):
            h = zlib.crc32(('%s/%d' % (k, seed)).encode()) % 9973
            v = 0.25 + h / 9973.0
            self[k] = v
            return v

        def __contains__(self, k):
            return True
    return Env()


WIT = [witness(5), witness(6)]


def sym_scalar(name, complex_):
    v = Rat.var(name)
    if complex_:
        v = v + IU * Rat.var(name + 'i')
    return v


def sym_in(space, name):
    if isinstance(space, NField):
        return sym_scalar(name, space.kind == 'C')
    return sym_elem(space, name)


def inner_any(space, a, b):
    if isinstance(space, NField):
        return PA.ired(to_rat(a) * PA.conj(to_rat(b)))
    return inner(a, b)


def is_real_space(space):
    if isinstance(space, NField):
        return space.kind == 'R'
    return space.is_real


def spaces():
    w = Rat.var('w')
    R = NSpace((2,), 'float64', w, name='X')
    C = R.twin(False)
    wa = NA(objarr([Rat.var('w0'), Rat.var('w1')]), 'float64')
    RA = NSpace((2,), 'float64', wa, name='XA')
    return {'R': R, 'C': C, 'RA': RA, 'CA': RA.twin(False)}


def builders(model):
    """name -> fn(I, S) -> operator instance."""
    def inst(I, cls, *a, **k):
        return I.instantiate(model.get(cls), list(a), k)
    B = {}
    for f in ('R', 'C', 'RA', 'CA'):
        cx = f.startswith('C')
        B['ScalingOperator[%s]' % f] = (
            lambda I, S, f=f, cx=cx: inst(I, 'ScalingOperator', S[f],
                                          sym_scalar('s', cx)))
        B['IdentityOperator[%s]' % f] = (
            lambda I, S, f=f: inst(I, 'IdentityOperator', S[f]))
        B['MultiplyOperator[%s]' % f] = (
            lambda I, S, f=f: inst(I, 'MultiplyOperator',
                                   sym_elem(S[f], 'm')))
        B['MultiplyOperator[field -> %s]' % f] = (
            lambda I, S, f=f, cx=cx: inst(
                I, 'MultiplyOperator', sym_elem(S[f], 'm'),
                domain=NField('C' if cx else 'R')))
        B['MultiplyOperator[scalar multiplicand, %s]' % f] = (
            lambda I, S, f=f, cx=cx: inst(
                I, 'MultiplyOperator', sym_scalar('s', cx), domain=S[f],
                range=S[f]))
        B['InnerProductOperator[%s]' % f] = (
            lambda I, S, f=f: inst(I, 'InnerProductOperator',
                                   sym_elem(S[f], 'v')))
        B['RealPart[%s]' % f] = (
            lambda I, S, f=f: inst(I, 'RealPart', S[f]))
        B['ImagPart[%s]' % f] = (
            lambda I, S, f=f: inst(I, 'ImagPart', S[f]))
        B['ZeroOperator[%s]' % f] = (
            lambda I, S, f=f: inst(I, 'ZeroOperator', S[f]))
    for f in ('R', 'RA'):
        for sname, sc in (('1', 1), ('1j', IU), ('a+bj', sym_scalar('s', True)),
                          ('real a', Rat.var('s')),
                          ('imaginary bj', IU * Rat.var('si'))):
            B['ComplexEmbedding[%s,scalar=%s]' % (f, sname)] = (
                lambda I, S, f=f, sc=sc: inst(I, 'ComplexEmbedding', S[f],
                                              sc))
    for f in ('C', 'CA'):
        B['ComplexEmbedding[%s,scalar=a+bj]' % f] = (
            lambda I, S, f=f: inst(I, 'ComplexEmbedding', S[f],
                                   sym_scalar('s', True)))
    # product-space operators
    def ps(S, weighted):
        from ..spacemodel import NPSpace
        w = [Rat.var('p%d' % i) for i in range(3)] if weighted else None
        return NPSpace([S['R'], S['R'], S['R']], w)
    for wt in (False, True):
        t = 'weighted pspace' if wt else 'pspace'
        B['ComponentProjection[%s]' % t] = (
            lambda I, S, wt=wt: inst(I, 'ComponentProjection', ps(S, wt), 1))
        B['ComponentProjectionAdjoint[%s]' % t] = (
            lambda I, S, wt=wt: inst(I, 'ComponentProjectionAdjoint',
                                     ps(S, wt), 2))

    def two_ops(I, S, f='R'):
        return [inst(I, 'ScalingOperator', S[f], sym_scalar(
            's', f.startswith('C'))), inst(I, 'MultiplyOperator',
                                           sym_elem(S[f], 'm'))]
    for f in ('R', 'C', 'RA'):
        B['BroadcastOperator[%s]' % f] = (
            lambda I, S, f=f: inst(I, 'BroadcastOperator', *two_ops(I, S, f)))
        B['ReductionOperator[%s]' % f] = (
            lambda I, S, f=f: inst(I, 'ReductionOperator', *two_ops(I, S, f)))
        B['DiagonalOperator[%s]' % f] = (
            lambda I, S, f=f: inst(I, 'DiagonalOperator', *two_ops(I, S, f)))

    def block(I, S, f):
        a, b = two_ops(I, S, f)
        c = inst(I, 'ScalingOperator', S[f], Rat.var('t'))
        return inst(I, 'ProductSpaceOperator', [[a, b], [0, c]])
    def block_layout(I, S, f, layout):
        """Blocks named by letters ('0' = no operator), row by row."""
        a, b = two_ops(I, S, f)
        ops = {'A': a, 'B': b,
               'C': inst(I, 'ScalingOperator', S[f], Rat.var('t')),
               'D': inst(I, 'ScalingOperator', S[f], Rat.var('u')),
               '0': 0}
        return inst(I, 'ProductSpaceOperator',
                    [[ops[ch] for ch in row] for row in layout])
    for f in ('R', 'C'):
        B['ProductSpaceOperator[[A,B],[0,C]][%s]' % f] = (
            lambda I, S, f=f: block(I, S, f))
        # every occupancy pattern of a 2 x 2 block matrix matters: the
        # adjoint swaps the row / column index arrays without sorting
        for layout in (('AB', 'CD'), ('AB', 'C0'), ('A0', 'CD'), ('0B', 'C0'),
                       ('AB',), ('A', 'C'), ('AB', 'CD', 'A0')):
            B['ProductSpaceOperator[%s][%s]' % ('/'.join(layout), f)] = (
                lambda I, S, f=f, layout=layout: block_layout(I, S, f,
                                                              layout))
    # tensor_ops: matrix, sampling and flattening operators
    def mat(name, shape, cx=False):
        a = _np.empty(shape, dtype=object)
        for idx in _np.ndindex(*shape):
            a[idx] = sym_scalar(name + ''.join(map(str, idx)), cx)
        return NA(a, 'complex128' if cx else 'float64')

    def sp(shape, w=None, cx=False, cv=None):
        return NSpace(shape, 'complex128' if cx else 'float64',
                      None if w is None else Rat.var(w),
                      cell_volume=None if cv is None else Rat.var(cv))
    B['MatrixOperator[unweighted]'] = lambda I, S: inst(
        I, 'MatrixOperator', mat('m', (3, 2)), domain=sp((2,)),
        range=sp((3,)))
    B['MatrixOperator[default domain and range]'] = lambda I, S: inst(
        I, 'MatrixOperator', mat('m', (3, 2)))
    B['MatrixOperator[complex]'] = lambda I, S: inst(
        I, 'MatrixOperator', mat('m', (3, 2), True),
        domain=sp((2,), cx=True), range=sp((3,), cx=True))
    B['MatrixOperator[real matrix, complex spaces]'] = lambda I, S: inst(
        I, 'MatrixOperator', mat('m', (3, 2)),
        domain=sp((2,), cx=True), range=sp((3,), cx=True))
    B['MatrixOperator[weighted domain w, inferred range]'] = (
        lambda I, S: inst(I, 'MatrixOperator', mat('m', (3, 2)),
                          domain=sp((2,), 'w')))
    B['MatrixOperator[weighted domain w, weighted range p0]'] = (
        lambda I, S: inst(I, 'MatrixOperator', mat('m', (3, 2)),
                          domain=sp((2,), 'w'), range=sp((3,), 'p0')))
    B['MatrixOperator[2-d domain, axis=1]'] = lambda I, S: inst(
        I, 'MatrixOperator', mat('m', (2, 3)), domain=sp((2, 3)), axis=1)
    B['MatrixOperator[2-d domain, axis=0]'] = lambda I, S: inst(
        I, 'MatrixOperator', mat('m', (3, 2)), domain=sp((2, 3)), axis=0)
    for ax, shp in ((0, (4, 2)), (1, (4, 3)), (2, (3, 2))):
        B['MatrixOperator[3-d domain, axis=%d]' % ax] = (
            lambda I, S, ax=ax, shp=shp: inst(
                I, 'MatrixOperator', mat('m', shp), domain=sp((2, 3, 2)),
                axis=ax))
    PTS = [[0, 1, 0], [1, 2, 1]]         # index (0, 1) occurs twice
    for tag, k in (('discretized', dict(w='w', cv='w')),
                   ('discretized, complex', dict(w='w', cv='w', cx=True)),
                   ('unweighted', dict()),
                   ('weighted tensor space', dict(w='w')),
                   ('discretized, weight != cell volume',
                    dict(w='w', cv='p0'))):
        for var in ('point_eval', 'integrate'):
            B['SamplingOperator[%s,%s]' % (tag, var)] = (
                lambda I, S, k=k, var=var: inst(
                    I, 'SamplingOperator', sp((2, 3), **k), PTS, var))
        for var in ('char_fun', 'dirac'):
            B['WeightedSumSamplingOperator[%s,%s]' % (tag, var)] = (
                lambda I, S, k=k, var=var: inst(
                    I, 'WeightedSumSamplingOperator', sp((2, 3), **k), PTS,
                    var))
        for order in ('C', 'F'):
            B['FlatteningOperator[%s,order=%s]' % (tag, order)] = (
                lambda I, S, k=k, order=order: inst(
                    I, 'FlatteningOperator', sp((2, 3), **k), order=order))
        B['FlatteningOperator.inverse[%s]' % tag] = (
            lambda I, S, k=k: I.getattr_value(inst(
                I, 'FlatteningOperator', sp((2, 3), **k)), 'inverse'))
    # point-wise inner products on vector-field spaces X^3 (base space X
    # weighted by w; product-space weights none / constant / per component;
    # optional explicit operator weights q)
    def vf(cx, wt):
        X = NSpace((2,), 'complex128' if cx else 'float64', Rat.var('w'))
        w = {None: None, 'const': [Rat.var('p0')] * 3,
             'array': [Rat.var('p%d' % i) for i in range(3)]}[wt]
        return X, NPSpace([X, X, X], w)
    qw = lambda: NA(objarr([Rat.var('q%d' % i) for i in range(3)]),
                    'float64')
    for cx in (False, True):
        for wt in (None, 'const', 'array'):
            t = '%s,pspace weights %s' % ('C' if cx else 'R', wt)
            B['PointwiseInner[%s]' % t] = lambda I, S, cx=cx, wt=wt: inst(
                I, 'PointwiseInner', vf(cx, wt)[1],
                sym_elem(vf(cx, wt)[1], 'g'))
            B['PointwiseInner[%s,weighting=q]' % t] = (
                lambda I, S, cx=cx, wt=wt: inst(
                    I, 'PointwiseInner', vf(cx, wt)[1],
                    sym_elem(vf(cx, wt)[1], 'g'), weighting=qw()))
            B['PointwiseInnerAdjoint[%s]' % t] = (
                lambda I, S, cx=cx, wt=wt: inst(
                    I, 'PointwiseInnerAdjoint', vf(cx, wt)[0],
                    sym_elem(vf(cx, wt)[1], 'g'), vfspace=vf(cx, wt)[1]))
            B['PointwiseInnerAdjoint[%s,weighting=q]' % t] = (
                lambda I, S, cx=cx, wt=wt: inst(
                    I, 'PointwiseInnerAdjoint', vf(cx, wt)[0],
                    sym_elem(vf(cx, wt)[1], 'g'), vfspace=vf(cx, wt)[1],
                    weighting=qw()))
            B['PointwiseSum[%s]' % t] = lambda I, S, cx=cx, wt=wt: inst(
                I, 'PointwiseSum', vf(cx, wt)[1])
            # explicit unit operator weights (differ from the weights of a
            # weighted product space)
            ones = lambda: NA(objarr([Rat.const(1)] * 3), 'float64')
            B['PointwiseInner[%s,weighting=1]' % t] = (
                lambda I, S, cx=cx, wt=wt: inst(
                    I, 'PointwiseInner', vf(cx, wt)[1],
                    sym_elem(vf(cx, wt)[1], 'g'), weighting=1.0))
            B['PointwiseInnerAdjoint[%s,weighting=(1,1,1)]' % t] = (
                lambda I, S, cx=cx, wt=wt: inst(
                    I, 'PointwiseInnerAdjoint', vf(cx, wt)[0],
                    sym_elem(vf(cx, wt)[1], 'g'), vfspace=vf(cx, wt)[1],
                    weighting=ones()))
            B['PointwiseSum[%s,weighting=(1,1,1)]' % t] = (
                lambda I, S, cx=cx, wt=wt: inst(
                    I, 'PointwiseSum', vf(cx, wt)[1], weighting=ones()))
        B['PointwiseInnerAdjoint[%s,default vfspace,weighting=q]' % (
            'C' if cx else 'R')] = lambda I, S, cx=cx: inst(
                I, 'PointwiseInnerAdjoint', vf(cx, None)[0],
                sym_elem(vf(cx, None)[1], 'g'), weighting=qw())
    # power spaces of length one and two (the loops over the remaining
    # components are empty / run once)
    def vfn(cx, n, weighted):
        X = NSpace((2,), 'complex128' if cx else 'float64', Rat.var('w'))
        w = [Rat.var('p%d' % i) for i in range(n)] if weighted else None
        return X, NPSpace([X] * n, w)
    for cx in (False, True):
        for n in (1, 2):
            for weighted in (False, True):
                t = '%s,length %d%s' % ('C' if cx else 'R', n, ',pspace '
                                        'weights' if weighted else '')
                B['PointwiseInner[%s]' % t] = (
                    lambda I, S, cx=cx, n=n, weighted=weighted: inst(
                        I, 'PointwiseInner', vfn(cx, n, weighted)[1],
                        sym_elem(vfn(cx, n, weighted)[1], 'g')))
                B['PointwiseInner[%s,weighting=q]' % t] = (
                    lambda I, S, cx=cx, n=n, weighted=weighted: inst(
                        I, 'PointwiseInner', vfn(cx, n, weighted)[1],
                        sym_elem(vfn(cx, n, weighted)[1], 'g'),
                        weighting=NA(objarr([Rat.var('q%d' % i)
                                             for i in range(n)]),
                                     'float64')))
                B['PointwiseSum[%s]' % t] = (
                    lambda I, S, cx=cx, n=n, weighted=weighted: inst(
                        I, 'PointwiseSum', vfn(cx, n, weighted)[1]))
    # finite differences on a uniformly discretized 4 x 3 model space with
    # symbolic cell sides h0, h1: default weighting (cell volume), another
    # constant, per-cell weights (what `nodes_on_bdry=True` gives)
    def D(w='vol', cx=False, shape=(4, 3)):
        hs = [Rat.var('h%d' % i) for i in range(len(shape))]
        vol = hs[0] * hs[1]
        if w == 'vol':
            wt = vol
        elif w == 'const':
            wt = Rat.var('w')
        else:
            a = _np.empty(shape, dtype=object)
            for idx in _np.ndindex(*shape):
                a[idx] = vol * Rat.var('w' + ''.join(map(str, idx)))
            wt = NA(a, 'float64')
        return NSpace(shape, 'complex128' if cx else 'float64', wt,
                      cell_sides=hs)
    PADS = ('constant', 'periodic', 'symmetric', 'symmetric_adjoint',
            'order0', 'order0_adjoint', 'order1', 'order1_adjoint', 'order2',
            'order2_adjoint')
    for m in ('forward', 'backward', 'central'):
        for pm in PADS:
            for ax in (0, 1):
                B['PartialDerivative[%s,%s,axis=%d]' % (m, pm, ax)] = (
                    lambda I, S, m=m, pm=pm, ax=ax: inst(
                        I, 'PartialDerivative', D(), ax, method=m,
                        pad_mode=pm))
        # short axes: with two (three) points the rows next to the boundary
        # *are* the boundary rows of the other side (the aliasing corrections
        # of finite_diff)
        for pm in PADS:
            for n in (2, 3):
                if n == 2 and pm.startswith('order2'):
                    continue      # documented minimum of three points
                B['PartialDerivative[%s,%s,axis of %d points]' % (
                    m, pm, n)] = lambda I, S, m=m, pm=pm, n=n: inst(
                        I, 'PartialDerivative', D(shape=(n, 2)), 0, method=m,
                        pad_mode=pm)
        for pm in ('constant', 'periodic', 'symmetric', 'order0', 'order1',
                   'order2'):
            B['Gradient[%s,%s]' % (m, pm)] = lambda I, S, m=m, pm=pm: inst(
                I, 'Gradient', D(), method=m, pad_mode=pm)
            B['Divergence[%s,%s]' % (m, pm)] = lambda I, S, m=m, pm=pm: inst(
                I, 'Divergence', range=D(), method=m, pad_mode=pm)
    for pm in ('constant', 'periodic', 'symmetric', 'order0'):
        B['Laplacian[%s]' % pm] = lambda I, S, pm=pm: inst(
            I, 'Laplacian', D(), pad_mode=pm)
    for w, cx, t in (('vol', True, 'complex'),
                     ('const', False, 'constant weight w'),
                     ('const', True, 'constant weight w, complex'),
                     ('array', False, 'per-cell weights')):
        B['PartialDerivative[%s]' % t] = lambda I, S, w=w, cx=cx: inst(
            I, 'PartialDerivative', D(w, cx), 1)
        B['Gradient[%s]' % t] = lambda I, S, w=w, cx=cx: inst(
            I, 'Gradient', D(w, cx))
        B['Divergence[%s]' % t] = lambda I, S, w=w, cx=cx: inst(
            I, 'Divergence', range=D(w, cx))
        B['Laplacian[%s]' % t] = lambda I, S, w=w, cx=cx: inst(
            I, 'Laplacian', D(w, cx))

    def D32():
        X = D()
        return NSpace(X.shape, 'float32', Rat.var('h0') * Rat.var('h1'),
                      cell_sides=[Rat.var('h0'), Rat.var('h1')])
    B['Laplacian[range of lower precision]'] = lambda I, S: inst(
        I, 'Laplacian', D(), range=D32())
    B['PartialDerivative[range of lower precision]'] = lambda I, S: inst(
        I, 'PartialDerivative', D(), 0, range=D32())
    wps = lambda X: NPSpace([X, X], [Rat.var('p0'), Rat.var('p1')])
    B['Gradient[weighted product-space range]'] = lambda I, S: inst(
        I, 'Gradient', D(), range=wps(D()))
    B['Divergence[weighted product-space domain]'] = lambda I, S: inst(
        I, 'Divergence', domain=wps(D()), range=D())
    # resizing operators between uniformly discretized spaces with equal
    # cell sides (the offset is what C16-R4b proves _offset_from_spaces to
    # return for the range; it is attached to the range space here)
    def RZ(I, shape_out, off, **kw):
        ran = D(shape=shape_out)
        ran.resize_offset = tuple(off)
        return inst(I, 'ResizingOperator', D(), ran, **kw)
    for pm in ('constant', 'symmetric', 'periodic', 'order0', 'order1'):
        B['ResizingOperator[4x3 -> 6x5,%s]' % pm] = (
            lambda I, S, pm=pm: RZ(I, (6, 5), (1, 1), pad_mode=pm))
        B['ResizingOperator[4x3 -> 2x3,%s]' % pm] = (
            lambda I, S, pm=pm: RZ(I, (2, 3), (1, 0), pad_mode=pm))
    B['ResizingOperator[4x3 -> 5x2,order0]'] = (
        lambda I, S: RZ(I, (5, 2), (1, 1), pad_mode='order0'))
    # compositions whose left factor is not safe for aliased evaluation
    B['expr:PartialDerivative(axis 0) o PartialDerivative(axis 1)'] = (
        lambda I, S: I.binop(ast.Mult, inst(I, 'PartialDerivative', D(), 0),
                             inst(I, 'PartialDerivative', D(), 1)))
    B['expr:Laplacian o ScalingOperator'] = (
        lambda I, S: I.binop(ast.Mult, inst(I, 'Laplacian', D()),
                             inst(I, 'ScalingOperator', D(), Rat.var('s'))))
    B['expr:PartialDerivative o Laplacian + PartialDerivative'] = (
        lambda I, S: I.binop(ast.Add, I.binop(
            ast.Mult, inst(I, 'PartialDerivative', D(), 0),
            inst(I, 'Laplacian', D())), inst(I, 'PartialDerivative', D(),
                                             1)))
    # sums whose left summand returns (a view of) its input out of place
    B['expr:RealPart[R] + IdentityOperator[R]'] = (
        lambda I, S: I.binop(ast.Add, inst(I, 'RealPart', S['R']),
                             inst(I, 'IdentityOperator', S['R'])))
    B['expr:RealPart[C] + ImagPart[C]'] = (
        lambda I, S: I.binop(ast.Add, inst(I, 'RealPart', S['C']),
                             inst(I, 'ImagPart', S['C'])))
    B['expr:ImagPart[C] - RealPart[C]'] = (
        lambda I, S: I.binop(ast.Sub, inst(I, 'ImagPart', S['C']),
                             inst(I, 'RealPart', S['C'])))
    # arithmetic on top of concrete leaves (dunders of Operator)
    B['expr:(s*RealPart + ImagPart)[C]'] = (
        lambda I, S: I.binop(ast.Add, I.binop(ast.Mult, Rat.var('s'), inst(
            I, 'RealPart', S['C'])), inst(I, 'ImagPart', S['C'])))
    B['expr:complex vector * ComplexEmbedding[R]'] = (
        lambda I, S: I.binop(ast.Mult, sym_elem(S['C'], 'v'), inst(
            I, 'ComplexEmbedding', S['R'], sym_scalar('s', True))))
    B['expr:ComplexEmbedding[R] * real vector'] = (
        lambda I, S: I.binop(ast.Mult, inst(
            I, 'ComplexEmbedding', S['R'], sym_scalar('s', True)),
            sym_elem(S['R'], 'v')))
    B['expr:real vector * RealPart[C]'] = (
        lambda I, S: I.binop(ast.Mult, sym_elem(S['R'], 'v'), inst(
            I, 'RealPart', S['C'])))
    B['expr:RealPart[C] * complex vector'] = (
        lambda I, S: I.binop(ast.Mult, inst(I, 'RealPart', S['C']),
                             sym_elem(S['C'], 'v')))
    B['expr:complex vector * MultiplyOperator[C]'] = (
        lambda I, S: I.binop(ast.Mult, sym_elem(S['C'], 'v'), inst(
            I, 'MultiplyOperator', sym_elem(S['C'], 'm'))))
    B['expr:(a+bj) * MultiplyOperator[C] * (c+dj)'] = (
        lambda I, S: I.binop(ast.Mult, I.binop(
            ast.Mult, sym_scalar('a', True), inst(
                I, 'MultiplyOperator', sym_elem(S['C'], 'm'))),
            sym_scalar('c', True)))
    B['expr:vector * FlatteningOperator[discretized]'] = (
        lambda I, S: I.binop(ast.Mult, sym_elem(NSpace((6,), 'float64'),
                                                'v'), inst(
            I, 'FlatteningOperator', sp((2, 3), w='w', cv='w'))))
    B['expr:s * FlatteningOperator[discretized]'] = (
        lambda I, S: I.binop(ast.Mult, Rat.var('s'), inst(
            I, 'FlatteningOperator', sp((2, 3), w='w', cv='w'))))
    B['expr:FlatteningOperator.inverse * vector'] = (
        lambda I, S: I.binop(ast.Mult, I.getattr_value(inst(
            I, 'FlatteningOperator', sp((2, 3), w='w', cv='w')), 'inverse'),
            sym_elem(NSpace((6,), 'float64'), 'v')))
    B['expr:MultiplyOperator o ComplexEmbedding[R]'] = (
        lambda I, S: I.binop(ast.Mult, inst(
            I, 'MultiplyOperator', sym_elem(S['C'], 'm')), inst(
                I, 'ComplexEmbedding', S['R'], sym_scalar('s', True))))
    # ---- discrete Fourier transforms (exact FFT model for lengths 2, 4) ----
    def F(shape, cx=True, vol=True):
        hs = [Rat.var('h%d' % i) for i in range(len(shape))]
        w = Rat.const(1)
        for h in hs:
            w = w * h
        return NSpace(shape, 'complex128' if cx else 'float64',
                      w if vol else Rat.const(1), cell_sides=hs)
    for shape, axes, sign, t in (((4,), None, '-', 'shape 4'),
                                 ((4,), None, '+', "shape 4, sign '+'"),
                                 ((2, 4), None, '-', 'shape 2x4'),
                                 ((2, 4), (1,), '-', 'shape 2x4, axes (1,)'),
                                 ((4, 2), (0,), '+',
                                  "shape 4x2, axes (0,), sign '+'")):
        B['DiscreteFourierTransform[%s]' % t] = (
            lambda I, S, shape=shape, axes=axes, sign=sign: inst(
                I, 'DiscreteFourierTransform', F(shape), axes=axes,
                sign=sign, impl='numpy'))
        B['DiscreteFourierTransformInverse[%s]' % t] = (
            lambda I, S, shape=shape, axes=axes, sign=sign:
            I.getattr_value(inst(
                I, 'DiscreteFourierTransform', F(shape), axes=axes,
                sign=sign, impl='numpy'), 'inverse'))
    B['DiscreteFourierTransform[shape 4, unit cells]'] = (
        lambda I, S: inst(I, 'DiscreteFourierTransform', F((4,), vol=False),
                          impl='numpy'))
    B['DiscreteFourierTransform[shape 4, real, halfcomplex]'] = (
        lambda I, S: inst(I, 'DiscreteFourierTransform', F((4,), cx=False),
                          halfcomplex=True, impl='numpy'))
    B['DiscreteFourierTransform[shape 2x4, real, full]'] = (
        lambda I, S: inst(I, 'DiscreteFourierTransform', F((2, 4), cx=False),
                          halfcomplex=False, impl='numpy'))
    return B


class H5(SMHooks):
    def __init__(self):
        SMHooks.__init__(self)
        self.signs = Signs({'w', 'w0', 'w1', 'p0', 'p1', 'p2', 'q0', 'q1',
                            'q2', 'h0', 'h1', 'h2'} | {
                'w%d%d' % (i, j) for i in range(4) for j in range(3)})

    def on_decide(self, interp, cond, node):
        # symbolic parameters are generic (non-zero, not special values)
        if cond.rat is not None and cond.key.startswith('eq0:'):
            return False
        k = cond.key.split(':')[0]
        if cond.rat is not None and k in ('Lt', 'LtE', 'Gt', 'GtE'):
            # sign of a sum of products of positive symbols
            sg = PA.rat_sign(cond.rat, self.signs)
            if sg is not None:
                return {'Lt': sg < 0, 'LtE': sg <= 0, 'Gt': sg > 0,
                        'GtE': sg >= 0}[k]
        return SMHooks.on_decide(self, interp, cond, node)

    # ---- what the discrete Fourier transforms read from their spaces -----
    def on_getattr(self, interp, obj, name):
        if isinstance(obj, NSpace) and obj.cell_sides is not None:
            if name == 'grid':
                return Rec('grid', shape=tuple(obj.shape),
                           ndim=len(obj.shape))
            if name == 'tspace':
                return Rec('tspace', impl='numpy')
            if name == 'is_uniform_byaxis':
                return (True,) * len(obj.shape)
            if name == 'is_uniform':
                return True
        if isinstance(obj, Rec) and name in obj.attrs:
            return obj.attrs[name]
        return SMHooks.on_getattr(self, interp, obj, name)

    def on_call(self, interp, f, args, kwargs, node):
        nm = getattr(f, 'name', None)
        if isinstance(f, Func) and nm == 'reciprocal_grid':
            # only its shape is read: the shape of the grid, halved (+1) in
            # the last transformed axis for half-complex transforms
            grid = args[0]
            shape = list(grid.attrs['shape'])
            axes = kwargs.get('axes')
            axes = list(range(len(shape))) if axes is None else [
                int(a) % len(shape) for a in (
                    axes.a.tolist() if isinstance(axes, NA) else
                    ([axes] if isinstance(axes, int) else axes))]
            if kwargs.get('halfcomplex') and axes:
                shape[axes[-1]] = shape[axes[-1]] // 2 + 1
            return Rec('grid', shape=tuple(shape), ndim=len(shape))
        if isinstance(f, Func) and nm in ('complex_dtype', 'real_dtype') \
                and args and isinstance(args[0], DT):
            d = args[0].d
            if nm == 'complex_dtype':
                return DT('complex64' if d in (_np.dtype('float32'),
                                               _np.dtype('complex64'))
                          else 'complex128')
            return DT('float32' if d in (_np.dtype('float32'),
                                         _np.dtype('complex64'))
                      else 'float64')
        if isinstance(f, Func) and nm == '_offset_from_spaces' and \
                getattr(args[1], 'resize_offset', None) is not None:
            return tuple(args[1].resize_offset)
        if isinstance(f, Func) and nm == 'normalized_scalar_param_list' \
                and len(args) >= 2 and not kwargs.get('keep_none'):
            p, n = args[0], args[1]
            return list(p) if isinstance(p, (list, tuple)) else [p] * n
        if isinstance(f, Func) and nm == 'uniform_discr':
            # uniform_discr([0] * n, shape - 1, shape, dtype, impl,
            # nodes_on_bdry=True): unit cells, default weighting 1
            shp = args[2]
            shp = tuple(int(to_rat(z).constant()) for z in (
                shp.a.tolist() if isinstance(shp, NA) else shp))
            dt = args[3] if len(args) > 3 else kwargs.get('dtype')
            return NSpace(shp, getattr(dt, 'd', dt), Rat.const(1),
                          cell_sides=[Rat.const(1)] * len(shp))
        return SMHooks.on_call(self, interp, f, args, kwargs, node)


def evaluate(model, build):
    """Returns dict with lhs, rhs, typing facts or an outcome string."""
    H = H5()
    I = SMInterp(model, {}, H)
    S = spaces()
    op = build(I, S)
    dom = I.getattr_value(op, 'domain')
    ran = I.getattr_value(op, 'range')
    res = {'dom': dom, 'ran': ran}
    x = sym_in(dom, 'x')
    y = sym_in(ran, 'y')
    def conv(space, v):
        # an out-of-place `_call` may return a raw array: Operator.__call__
        # converts it to a range element (C03-R6/R7)
        from ..namodel import NA
        if isinstance(v, NA) and not isinstance(space, NField):
            return H.element(I, space, v)
        return v
    Ax = conv(ran, I.call(op, [x], {}))
    try:
        adj = I.getattr_value(op, 'adjoint')
    except PyRaise as e:
        res['outcome'] = 'adjoint raises %s' % e.name
        res['node'] = e.node
        return res
    res['adj_dom'] = I.getattr_value(adj, 'domain')
    res['adj_ran'] = I.getattr_value(adj, 'range')
    try:
        Aty = conv(dom, I.call(adj, [y], {}))
    except PyRaise as e:
        res['outcome'] = 'adjoint(y) raises %s' % e.name
        res['node'] = e.node
        return res
    lhs = inner_any(ran, Ax, y)
    rhs = inner_any(dom, x, Aty)
    if is_real_space(dom) != is_real_space(ran):
        lhs, rhs = PA.real_part(lhs), PA.real_part(rhs)
        res['real_identity'] = True
    res['lhs'], res['rhs'] = lhs, rhs
    # involution: A.adjoint.adjoint acts like A
    try:
        adj2 = I.getattr_value(adj, 'adjoint')
        A2x = conv(ran, I.call(adj2, [sym_in(dom, 'x')], {}))
    except PyRaise as e:
        res['invol'] = 'adjoint.adjoint raises %s' % e.name
    else:
        def ent(space, v):
            return [PA.ired(to_rat(v))] if isinstance(space, NField) \
                else flat(v)
        a, b = ent(ran, Ax), ent(ran, A2x)
        bad = [k for k, (p, q) in enumerate(zip(a, b))
               if not PA.same(p, q, WIT)]
        if len(a) != len(b) or bad:
            res['invol'] = ('adjoint.adjoint(x) differs from A(x) in %d of '
                            '%d entries' % (len(bad), len(a)))
    res['outcome'] = 'value'
    return res


def _where(model, name):
    import re
    m = re.match(r'(\w+)', name)
    ci = model.classes.get(m.group(1)) if m else None
    return (ci.rel, ci.node.lineno) if ci is not None else (DOPS, None)


def run(rep, model):
    n = 0
    for name, b in builders(model).items():
        cons = name
        n += 1
        DOPS, line0 = _where(model, name)
        try:
            from ..core import with_budget
            r = with_budget(lambda: evaluate(model, b))
        except (Undecided, Fork) as e:
            rep.undecided('R8', cons, str(e), DOPS)
            continue
        except PyRaise as e:
            rep.violation('R8', cons, 'raises %s at `%s`' % (
                e.name, ast.unparse(e.node)[:70] if e.node is not None
                else '?'), DOPS, getattr(e.node, 'lineno', None))
            continue
        except NotAnElement as e:
            rep.violation('R8', cons, 'a call yields no element: %s' % e,
                          DOPS)
            continue
        if r['outcome'] != 'value':
            nd = r.get('node')
            rep.violation('R8', cons, '%s at `%s`' % (
                r['outcome'], ast.unparse(nd)[:70] if nd is not None
                else '?'), DOPS, getattr(nd, 'lineno', None))
            continue
        probs = []
        if not (r['adj_dom'] == r['ran']):
            probs.append('adjoint.domain is %r, the range is %r'
                         % (r['adj_dom'], r['ran']))
        if not (r['adj_ran'] == r['dom']):
            probs.append('adjoint.range is %r, the domain is %r'
                         % (r['adj_ran'], r['dom']))
        if not PA.same(r['lhs'], r['rhs'], WIT):
            short = lambda v: (lambda t: t if len(t) <= 240 else t[:240] +
                               ' ...')(repr(v))
            probs.append('%s<A x, y> = %s but <x, A* y> = %s' % (
                'Re ' if r.get('real_identity') else '', short(r['lhs']),
                short(r['rhs'])))
        if r.get('invol'):
            probs.append(r['invol'])
        if probs:
            rep.violation('R8', cons, '; '.join(probs), DOPS, line0)
        else:
            rep.holds('R8', cons, 'adjoint identity holds identically, '
                      'adjoint.adjoint acts like A%s'
                      % (' (real parts)' if r.get('real_identity')
                         else ''))
    rep.floor('R8', 'evaluated operator instances', n, 230)
