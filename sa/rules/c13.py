"""C13 -- finite-difference operators equal reference stencils; adjoints are
transposes.  See DESIGN.md section C13."""
from __future__ import annotations

import ast
from fractions import Fraction as Fr

from ..core import Report, Undecided, AnalysisError
from ..affine import Aff, AffInterp, transpose, neg, show_matrix
from ..srcmodel import bind_call, return_exprs

REL = 'odl/discr/diff_ops.py'
REF_MODES = ('constant', 'symmetric', 'periodic', 'order0', 'order1',
             'order2')


# --------------------------------------------------------------------------
# R1: extraction of the stencil matrix of finite_diff
class _FD(AffInterp):
    """AffInterp specialised to the body of ``finite_diff`` in 1-D."""

    def __init__(self, n, method, pad_mode):
        self.F = [Aff.sym(('f', i)) for i in range(n)]
        self.OUT = [None] * n
        AffInterp.__init__(
            self, {'f': self.F, 'f_arr': self.F, 'out': self.OUT},
            env={'method': method, 'pad_mode': pad_mode, 'axis': 0},
            scalars={'pad_const': Aff.sym('c')}, count_div=('dx',))
        self.n = n
        self.rejected = None
        self.content_written = False

    def pyconst(self, node):
        # <tracked>.shape[axis] / .shape[0] / len(<tracked>)  ->  n
        if (isinstance(node, ast.Subscript)
                and isinstance(node.value, ast.Attribute)
                and node.value.attr == 'shape'
                and isinstance(node.value.value, ast.Name)
                and node.value.value.id in self.arrays):
            return self.n
        return AffInterp.pyconst(self, node)


def _is_tracked_name(node, interp):
    return isinstance(node, ast.Name) and node.id in interp.arrays


def _rebind(interp, target, value):
    """Model the preamble rebindings of tracked array names."""
    if isinstance(target, ast.Tuple) and isinstance(value, ast.Tuple) \
            and len(target.elts) == len(value.elts):
        # simultaneous assignment: evaluate all right-hand sides first
        vals = [_rebind_value(interp, v) for v in value.elts]
        for t, v in zip(target.elts, vals):
            _bind(interp, t, v)
        return
    _bind(interp, target, _rebind_value(interp, value))


def _rebind_value(interp, v):
    """-> storage list, 'FRESH', or 'OTHER'."""
    if _is_tracked_name(v, interp):
        return interp.arrays[v.id]
    if isinstance(v, ast.Call):
        fn = ast.unparse(v.func)
        if fn in ('np.swapaxes',) and v.args and \
                _is_tracked_name(v.args[0], interp):
            return interp.arrays[v.args[0].id]      # identity in 1-D
        if fn in ('np.asarray', 'np.asanyarray') and v.args and \
                _is_tracked_name(v.args[0], interp):
            return interp.arrays[v.args[0].id]
        if fn in ('np.empty_like', 'np.empty'):
            return 'FRESH'
    return 'OTHER'


def _bind(interp, t, v):
    if not isinstance(t, ast.Name):
        raise Undecided('rebinding target %s' % ast.unparse(t))
    if v == 'FRESH':
        if interp.content_written:
            raise Undecided('output re-allocated after it was written')
        if t.id in interp.arrays and interp.arrays[t.id] is interp.F:
            raise Undecided('input array rebound to a fresh array')
        interp.arrays[t.id] = interp.OUT
    elif v == 'OTHER':
        if t.id in interp.arrays:
            raise Undecided('tracked array %s rebound to an unknown value'
                            % t.id)
        # untracked name bound to something unrelated: ignore
    else:
        interp.arrays[t.id] = v


def _content_touch(s, names):
    for n in ast.walk(s):
        if isinstance(n, ast.AugAssign):
            for m in ast.walk(n.target):
                if isinstance(m, ast.Name) and m.id in names:
                    return True
        if isinstance(n, ast.Assign):
            for t in n.targets:
                if isinstance(t, (ast.Subscript, ast.Attribute)):
                    for m in ast.walk(t):
                        if isinstance(m, ast.Name) and m.id in names:
                            return True
        if isinstance(n, ast.keyword) and n.arg == 'out':
            for m in ast.walk(n.value):
                if isinstance(m, ast.Name) and m.id in names:
                    return True
    return False


def _rebinds(s, names):
    for n in ast.walk(s):
        if isinstance(n, ast.Assign):
            for t in n.targets:
                for m in ([t] if isinstance(t, ast.Name) else
                          t.elts if isinstance(t, ast.Tuple) else []):
                    if isinstance(m, ast.Name) and m.id in names:
                        return True
    return False


def extract(fd, n, method, pad_mode):
    """Run ``finite_diff`` symbolically for a 1-D array of length n.
    Returns ('OK', M, v) | ('REJECT', msg) | ('INDEXERROR', msg)."""
    it = _FD(n, method, pad_mode)

    def run(stmts):
        for s in stmts:
            names = set(it.arrays)
            if isinstance(s, ast.Return):
                if s.value is None or not (
                        isinstance(s.value, ast.Name)
                        and it.arrays.get(s.value.id) is it.OUT):
                    raise Undecided('finite_diff returns %s, not the output '
                                    'array' % (ast.unparse(s.value)
                                               if s.value else None))
                it.returned = True
                return True
            if isinstance(s, ast.If):
                touching = _content_touch(s, names) or _rebinds(s, names)
                try:
                    t = it.test(s.test)
                except Undecided:
                    if _content_touch(s, names):
                        raise
                    # undecidable preamble test (argument validation, `out
                    # is None`): take the rebinding arm that allocates, skip
                    # pure validation
                    if _rebinds(s, names):
                        for arm in (s.body, s.orelse):
                            if _rebinds(ast.Module(body=arm,
                                                   type_ignores=[]), names):
                                if run(arm):
                                    return True
                    continue
                arm = s.body if t else s.orelse
                if arm and all(isinstance(x, ast.Raise) for x in arm):
                    it.rejected = ast.unparse(s.test)
                    return True
                if not touching:
                    continue
                if run(arm):
                    return True
                continue
            if _content_touch(s, names):
                it.stmt(s)
                it.content_written = True
                continue
            if isinstance(s, ast.Assign) and _rebinds(s, names):
                _rebind(it, s.targets[0], s.value)
                continue
            # statement that neither writes nor rebinds a tracked array:
            # argument normalisation, ignored
        return False

    try:
        run(fd.body)
    except IndexError as e:
        return ('INDEXERROR', 'index %s out of range' % e)
    if it.rejected is not None:
        return ('REJECT', it.rejected)
    if not it.returned:
        raise Undecided('no return of the output array reached')
    if it.div_count.get(('out', 'dx'), 0) != 1 or len(it.div_count) != 1:
        raise Undecided('division by the step size applied %s times'
                        % dict(it.div_count))
    if any(o is None for o in it.OUT):
        raise Undecided('output row %d never written'
                        % it.OUT.index(None))
    for r, o in enumerate(it.OUT):
        bad = [k for k in o if isinstance(k, tuple) and k[0] == 'UNDEF']
        if bad:
            return ('GARBAGE', 'output row %d depends on the uninitialised '
                    'output entry %d (np.empty memory read before it is '
                    'written)' % (r, bad[0][1]))
    M = [[o.get(('f', j), Fr(0)) for j in range(n)] for o in it.OUT]
    v = [o.get('c', Fr(0)) for o in it.OUT]
    k = [o.get('1', Fr(0)) for o in it.OUT]
    if any(x != 0 for x in k):
        raise Undecided('constant offset in a stencil row')
    return ('OK', M, v)


# --------------------------------------------------------------------------
# R2: reference stencils derived from the extension rule
def _order2_weights():
    """The 3-point one-sided first-derivative stencil exact on 1, t, t^2:
    solve sum_k w_k k^j = [j == 1] for j = 0, 1, 2 over Fraction."""
    A = [[Fr(k) ** j for k in range(3)] for j in range(3)]
    b = [Fr(0), Fr(1), Fr(0)]
    # Gaussian elimination
    n = 3
    for i in range(n):
        p = next(r for r in range(i, n) if A[r][i] != 0)
        A[i], A[p] = A[p], A[i]
        b[i], b[p] = b[p], b[i]
        for r in range(n):
            if r != i and A[r][i] != 0:
                f = A[r][i] / A[i][i]
                A[r] = [x - f * y for x, y in zip(A[r], A[i])]
                b[r] -= f * b[i]
    return [b[i] / A[i][i] for i in range(n)]


def reference(method, pad, n):
    def ext(i):
        if 0 <= i < n:
            return Aff.sym(('f', i))
        if pad == 'constant':
            return Aff.sym('c')
        if pad == 'symmetric':      # mirror about the array edge
            return ext(-i - 1) if i < 0 else ext(2 * n - 1 - i)
        if pad == 'periodic':
            return ext(i % n)
        if pad == 'order0':
            return ext(0) if i < 0 else ext(n - 1)
        if pad == 'order1':
            return (ext(0).scale(2) - ext(1)) if i < 0 else \
                (ext(n - 1).scale(2) - ext(n - 2))
        raise KeyError(pad)

    rows = []
    w = _order2_weights() if pad == 'order2' else None
    for i in range(n):
        if pad == 'order2' and i == 0:
            r = Aff()
            for k in range(3):
                r = r + Aff.sym(('f', k)).scale(w[k])
        elif pad == 'order2' and i == n - 1:
            r = Aff()
            for k in range(3):
                r = r + Aff.sym(('f', n - 1 - k)).scale(-w[k])
        elif method == 'forward':
            r = ext(i + 1) - ext(i)
        elif method == 'backward':
            r = ext(i) - ext(i - 1)
        else:
            r = (ext(i + 1) - ext(i - 1)).scale(Fr(1, 2))
        rows.append(r)
    M = [[o.get(('f', j), Fr(0)) for j in range(n)] for o in rows]
    v = [o.get('c', Fr(0)) for o in rows]
    return M, v


# --------------------------------------------------------------------------
def _bool_eval(node, env):
    """Evaluate a boolean expression over python constants in env."""
    if isinstance(node, ast.Constant):
        return node.value
    if isinstance(node, ast.Name):
        if node.id in env:
            return env[node.id]
        raise Undecided('name %s in boolean expression' % node.id)
    if isinstance(node, ast.Attribute) and isinstance(node.value, ast.Name) \
            and node.value.id == 'self' and node.attr in env:
        return env[node.attr]
    if isinstance(node, ast.UnaryOp) and isinstance(node.op, ast.Not):
        return not _bool_eval(node.operand, env)
    if isinstance(node, ast.BoolOp):
        vs = [_bool_eval(v, env) for v in node.values]
        return all(vs) if isinstance(node.op, ast.And) else any(vs)
    if isinstance(node, ast.Compare) and len(node.ops) == 1:
        l = _bool_eval(node.left, env)
        r = _bool_eval(node.comparators[0], env)
        op = node.ops[0]
        if isinstance(op, ast.Eq):
            return l == r
        if isinstance(op, ast.NotEq):
            return l != r
        if isinstance(op, ast.In):
            return l in r
        if isinstance(op, ast.NotIn):
            return l not in r
    if isinstance(node, ast.Tuple):
        return tuple(_bool_eval(e, env) for e in node.elts)
    raise Undecided('boolean expression %s' % ast.unparse(node))


def _super_init_call(init, clsname):
    for n in ast.walk(init):
        if isinstance(n, ast.Call) and isinstance(n.func, ast.Attribute) \
                and n.func.attr == '__init__' \
                and isinstance(n.func.value, ast.Call) \
                and ast.unparse(n.func.value.func) == 'super':
            return n
    raise AnalysisError('no super().__init__ call in %s.__init__' % clsname)


def _local_def(fdef, name, before):
    """Last top-level assignment ``name = expr`` before line ``before``."""
    found = None
    for s in fdef.body:
        if s.lineno >= before:
            break
        if isinstance(s, ast.Assign) and len(s.targets) == 1 and \
                isinstance(s.targets[0], ast.Name) and \
                s.targets[0].id == name:
            found = s.value
    return found


def _strip_sign(expr):
    sign = 1
    while isinstance(expr, ast.UnaryOp) and isinstance(expr.op,
                                                       (ast.USub, ast.UAdd)):
        if isinstance(expr.op, ast.USub):
            sign = -sign
        expr = expr.operand
    return sign, expr


def check(ctx):
    rep = Report(
        'C13', ctx, 'proof',
        'Exact stencil matrices (Fraction entries) of finite_diff are '
        'extracted by abstract interpretation of its slice code for every '
        '(method, pad_mode) and every length n in the bound; they are '
        'compared with reference stencils derived from the named extension '
        'rule (R2) and with minus the transpose of the configuration named '
        'by the adjoint tables (R3); the four operator classes are checked '
        'for wiring: linear flag, adjoint and derivative constructor '
        'arguments, per-axis accumulation in _call (R4).  Rows further than '
        '3 from either end are translation invariant copies of the interior '
        'stencil (width <= 3), so n >= 7 is the generic case and 2 <= n <= 6 '
        'enumerates every overlap of the two boundary layers.',
        ['CPython ast', 'NumPy basic-slice semantics for 1-D arrays',
         'np.subtract(a, b, out=c) writes a - b into c',
         'np.swapaxes is a view'],
        ['N-d broadcasting through swapaxes (NumPy semantics)',
         'complex dtype arithmetic', 'floating-point rounding'])
    tree = ctx.tree(REL)
    consts = ctx.module_consts(REL)
    for k in ('_SUPPORTED_DIFF_METHODS', '_SUPPORTED_PAD_MODES',
              '_ADJ_METHOD', '_ADJ_PADDING'):
        if k not in consts:
            raise AnalysisError('anchor vanished: %s in %s' % (k, REL))
    METHODS = tuple(consts['_SUPPORTED_DIFF_METHODS'])
    PADS = tuple(consts['_SUPPORTED_PAD_MODES'])
    ADJM, ADJP = consts['_ADJ_METHOD'], consts['_ADJ_PADDING']
    fd = ctx.func(REL, 'finite_diff')
    nmax = 9 if ctx.tier == 'quick' else 16

    # ---- R3a: tables are involutions over the supported sets -------------
    for name, tab, keys in (('_ADJ_METHOD', ADJM, METHODS),
                            ('_ADJ_PADDING', ADJP, PADS)):
        line = next((n.lineno for n in tree.body if isinstance(n, ast.Assign)
                     and isinstance(n.targets[0], ast.Name)
                     and n.targets[0].id == name), None)
        if set(tab) != set(keys) or not set(tab.values()) <= set(keys):
            rep.violation('R3', name, 'key/value set %s differs from the '
                          'supported set %s' % (sorted(tab), sorted(keys)),
                          REL, line)
        elif any(tab[tab[k]] != k for k in tab):
            bad = [k for k in tab if tab[tab[k]] != k]
            rep.violation('R3', name, 'not an involution at %s' % bad, REL,
                          line)
        else:
            rep.holds('R3', name, 'involution on %d keys' % len(tab))

    # ---- R1: extraction ---------------------------------------------------
    res = {}
    for m in METHODS:
        for p in PADS:
            for n in range(2, nmax + 1):
                key = (m, p, n)
                cons = 'finite_diff[%s,%s,n=%d]' % key
                try:
                    res[key] = extract(fd, n, m, p)
                    rep.count('stencil_configurations')
                    if res[key][0] == 'GARBAGE':
                        rep.violation('R1', cons, res[key][1], REL,
                                      fd.lineno)
                except Undecided as e:
                    res[key] = ('UNDECIDED', str(e))
                    rep.undecided('R1', cons, str(e), REL, fd.lineno)
    rep.floor('R1', '(method, pad_mode) configurations',
              len({(m, p) for (m, p, n) in res}), 30)

    # short-length behaviour: rejections must be by guard; an IndexError is
    # a diagnostic (it is an error either way, not a wrong value)
    for key, r in sorted(res.items()):
        if r[0] == 'INDEXERROR':
            rep.diagnostic('finite_diff%r raises IndexError instead of a '
                           'ValueError from a length guard (%s)'
                           % (key, r[1]))
        # every length >= 3 must be accepted
        if r[0] in ('REJECT', 'INDEXERROR') and key[2] >= 4:
            rep.violation('R1', 'finite_diff[%s,%s,n=%d]' % key,
                          'admissible length is rejected: %s' % r[1], REL,
                          fd.lineno)

    # ---- R2: reference stencils -------------------------------------------
    for (m, p, n), r in sorted(res.items()):
        if r[0] != 'OK' or p not in REF_MODES:
            continue
        if p == 'order2' and n < 3:
            continue
        M, v = r[1], r[2]
        Mr, vr = reference(m, p, n)
        cons = 'finite_diff[%s,%s]' % (m, p)
        if M != Mr or v != vr:
            bad = [i for i in range(n) if M[i] != Mr[i] or v[i] != vr[i]]
            rep.violation(
                'R2', cons,
                'n=%d: rows %s differ from the reference stencil of the '
                '%r extension: code %s (pad_const coeff %s), reference %s '
                '(%s)' % (n, bad, p, show_matrix([M[i] for i in bad]),
                          [str(v[i]) for i in bad],
                          show_matrix([Mr[i] for i in bad]),
                          [str(vr[i]) for i in bad]), REL, fd.lineno)
        else:
            rep.holds('R2', cons + ',n=%d' % n,
                      'matrix and pad_const column equal the reference')

    # ---- R3: adjoint configuration is minus the transpose -------------------
    for (m, p, n), r in sorted(res.items()):
        if r[0] != 'OK':
            continue
        if set(ADJM) != set(METHODS) or set(ADJP) != set(PADS):
            break
        a = res.get((ADJM[m], ADJP[p], n))
        if a is None or a[0] != 'OK':
            continue
        cons = 'finite_diff[%s,%s]' % (m, p)
        if a[1] != neg(transpose(r[1])):
            rep.violation(
                'R3', cons,
                'n=%d: matrix of the adjoint configuration (%s, %s) is not '
                'minus the transpose: M=%s, M_adj=%s'
                % (n, ADJM[m], ADJP[p], show_matrix(r[1]),
                   show_matrix(a[1])), REL, fd.lineno)
        else:
            rep.holds('R3', cons + ',n=%d' % n,
                      'M(%s,%s) = -M^T' % (ADJM[m], ADJP[p]))

    # ---- R4: operator wiring ------------------------------------------------
    _wiring(ctx, rep, res, METHODS, PADS, ADJM, ADJP, nmax)
    # ---- R6-R8: the operator classes evaluated on a model space ------------
    from ..srcmodel import Model
    from . import c13b
    c13b.run(rep, Model(ctx))
    return rep


# --------------------------------------------------------------------------
def _wiring(ctx, rep, res, METHODS, PADS, ADJM, ADJP, nmax):
    classes = ('PartialDerivative', 'Gradient', 'Divergence', 'Laplacian')
    inits = {c: ctx.method(REL, c, '__init__') for c in classes}

    # R4a: linear flag = not (pad_mode == 'constant' and pad_const != 0)
    for c in classes:
        init = inits[c]
        call = _super_init_call(init, c)
        lin = [k.value for k in call.keywords if k.arg == 'linear']
        cons = '%s.__init__:linear' % c
        if not lin:
            rep.undecided('R4', cons, 'linear= not passed by keyword', REL,
                          call.lineno)
            continue
        expr = lin[0]
        if isinstance(expr, ast.Name):
            d = _local_def(init, expr.id, call.lineno)
            if d is None:
                rep.undecided('R4', cons, 'cannot find the definition of '
                              '%s' % expr.id, REL, call.lineno)
                continue
            expr = d
        try:
            bad = []
            for pm in ('constant', 'periodic'):
                for pc in (0, 1):
                    got = bool(_bool_eval(expr, {'pad_mode': pm,
                                                 'pad_const': pc}))
                    want = not (pm == 'constant' and pc != 0)
                    if got != want:
                        bad.append((pm, pc, got))
            if bad:
                rep.violation(
                    'R4', cons,
                    'linear flag is %s for (pad_mode, pad_const) = %s; the '
                    'operator is affine exactly when pad_mode == "constant" '
                    'and pad_const != 0 (its own derivative() treats that '
                    'case as affine)' % (bad[0][2], bad[0][:2]), REL,
                    call.lineno)
            else:
                rep.holds('R4', cons, 'linear iff not (constant padding '
                          'with non-zero pad_const)')
        except Undecided as e:
            rep.undecided('R4', cons, str(e), REL, call.lineno)

    # R4b: adjoint wiring
    partner = {'PartialDerivative': ('PartialDerivative', -1),
               'Gradient': ('Divergence', -1),
               'Divergence': ('Gradient', -1),
               'Laplacian': ('Laplacian', 1)}
    for c in classes:
        adj = ctx.method(REL, c, 'adjoint')
        cons = '%s.adjoint' % c
        rets = return_exprs(adj)
        if len(rets) != 1:
            rep.undecided('R4', cons, '%d return statements' % len(rets),
                          REL, adj.lineno)
            continue
        sign, call = _strip_sign(rets[0].value)
        if not isinstance(call, ast.Call) or not isinstance(call.func,
                                                            ast.Name):
            rep.undecided('R4', cons, 'returns %s' % ast.unparse(
                rets[0].value)[:60], REL, rets[0].lineno)
            continue
        pc, psign = partner[c]
        problems = []
        if call.func.id != pc:
            problems.append('constructs %s, expected %s' % (call.func.id,
                                                            pc))
        if sign != psign:
            problems.append('sign %+d, expected %+d' % (sign, psign))
        try:
            b, extra = bind_call(call, inits.get(call.func.id, inits[pc]))
        except Undecided as e:
            rep.undecided('R4', cons, str(e), REL, rets[0].lineno)
            continue
        if extra:
            problems.append('unknown keyword(s) %s' % sorted(extra))
        want = {'domain': 'self.range', 'range': 'self.domain'}
        if c != 'Laplacian':
            want['method'] = '_ADJ_METHOD[self.method]'
            want['pad_mode'] = '_ADJ_PADDING[self.pad_mode]'
        if c == 'PartialDerivative':
            want['axis'] = 'self.axis'
        for k, w in want.items():
            got = ast.unparse(b[k]) if k in b else None
            if got != w:
                problems.append('%s=%s, expected %s' % (k, got, w))
        # pad_const: the adjoint only exists for the linear case, in which
        # pad_const is irrelevant unless pad_mode == 'constant' (then it is
        # 0): forwarding self.pad_const and passing 0 are both right
        got = ast.unparse(b['pad_const']) if 'pad_const' in b else None
        if got not in ('self.pad_const', '0', '0.0'):
            problems.append('pad_const=%s' % got)
        # linear guard must dominate (Laplacian.adjoint is unguarded: with
        # F18 repaired it passes pad_const=0, which is the derivative's
        # adjoint; accepted as the property statement only covers linear A)
        if c != 'Laplacian':
            first = [s for s in adj.body
                     if not (isinstance(s, ast.Expr)
                             and isinstance(s.value, ast.Constant))][0]
            ok = (isinstance(first, ast.If)
                  and ast.unparse(first.test) == 'not self.is_linear'
                  and any(isinstance(x, ast.Raise) for x in first.body))
            if not ok:
                problems.append('no `not self.is_linear -> raise` guard '
                                'before the return')
        if c == 'Laplacian':
            # same pad_mode is justified iff forward-backward is symmetric
            pm = ast.unparse(b['pad_mode']) if 'pad_mode' in b else None
            if pm != 'self.pad_mode':
                problems.append('pad_mode=%s, expected self.pad_mode' % pm)
        if problems:
            rep.violation('R4', cons, '; '.join(problems), REL,
                          rets[0].lineno)
        else:
            rep.holds('R4', cons, 'sign %+d, %s with domain/range swapped '
                      'and adjoint tables applied' % (psign, pc))

    # R4c: derivative of the affine variant
    for c in classes:
        der = ctx.method(REL, c, 'derivative')
        cons = '%s.derivative' % c
        ifs = [s for s in der.body if isinstance(s, ast.If)]
        if len(ifs) != 1:
            rep.undecided('R4', cons, 'unexpected shape', REL, der.lineno)
            continue
        st = ifs[0]
        problems = []
        try:
            for pm in ('constant', 'periodic'):
                for pcv in (0, 1):
                    t = bool(_bool_eval(st.test, {'pad_mode': pm,
                                                  'pad_const': pcv}))
                    if t != (pm == 'constant' and pcv != 0):
                        problems.append('guard is %s for %s' % (t, (pm,
                                                                    pcv)))
        except Undecided as e:
            rep.undecided('R4', cons, str(e), REL, st.lineno)
            continue
        r1 = [s for s in st.body if isinstance(s, ast.Return)]
        r2 = [s for s in st.orelse if isinstance(s, ast.Return)]
        if len(r1) != 1 or len(r2) != 1:
            rep.undecided('R4', cons, 'unexpected shape', REL, der.lineno)
            continue
        if ast.unparse(r2[0].value) != 'self':
            problems.append('linear case returns %s, expected self'
                            % ast.unparse(r2[0].value))
        call = r1[0].value
        if not (isinstance(call, ast.Call) and isinstance(call.func, ast.Name)
                and call.func.id == c):
            problems.append('affine case returns %s' % ast.unparse(call)[:50])
        else:
            try:
                b, extra = bind_call(call, inits[c])
                want = {'domain': 'self.domain', 'range': 'self.range',
                        'pad_mode': 'self.pad_mode'}
                if c != 'Laplacian':
                    want['method'] = 'self.method'
                if c == 'PartialDerivative':
                    want['axis'] = 'self.axis'
                for k, w in want.items():
                    got = ast.unparse(b[k]) if k in b else None
                    if got != w:
                        problems.append('%s=%s, expected %s' % (k, got, w))
                got = ast.unparse(b['pad_const']) if 'pad_const' in b \
                    else None
                if got not in ('0', '0.0'):
                    problems.append('pad_const=%s, expected 0' % got)
                if extra:
                    problems.append('unknown keyword(s) %s' % sorted(extra))
            except Undecided as e:
                rep.undecided('R4', cons, str(e), REL, r1[0].lineno)
                continue
        if problems:
            rep.violation('R4', cons, '; '.join(problems), REL, st.lineno)
        else:
            rep.holds('R4', cons, 'zero-padding version with all other '
                      'arguments forwarded; self when linear')

    # R4d: _call accumulation, evaluated for ndim = 2 with symbolic FD terms
    _call_wiring(ctx, rep, inits)

    # R4e: Laplacian = forward - backward is symmetric and is the second
    # difference of the extended array, for its admitted modes
    lap_init = inits['Laplacian']
    admitted = []
    for pm in PADS:
        rejected = False
        for s in lap_init.body:
            if isinstance(s, ast.If) and any(isinstance(x, ast.Raise)
                                             for x in s.body):
                try:
                    if _bool_eval(s.test, {
                            'pad_mode': pm,
                            '_SUPPORTED_PAD_MODES': PADS}):
                        rejected = True
                except Undecided:
                    pass
        if not rejected:
            admitted.append(pm)
    rep.floor('R4', 'pad modes admitted by Laplacian', len(admitted), 1)
    for pm in admitted:
        for n in range(2, nmax + 1):
            f, b = res.get(('forward', pm, n)), res.get(('backward', pm, n))
            if not f or not b or f[0] != 'OK' or b[0] != 'OK':
                continue
            L = [[x - y for x, y in zip(r1, r2)]
                 for r1, r2 in zip(f[1], b[1])]
            cons = 'Laplacian[%s]' % pm
            if L != transpose(L):
                rep.violation(
                    'R4', cons,
                    'n=%d: forward-backward matrix is not symmetric, so '
                    'Laplacian.adjoint (same pad_mode) is not the transpose:'
                    ' %s' % (n, show_matrix(L)), REL,
                    ctx.method(REL, 'Laplacian', 'adjoint').lineno)
            else:
                rep.holds('R4', cons + ',n=%d' % n, 'forward-backward is '
                          'symmetric')
            if pm in ('constant', 'periodic', 'symmetric', 'order0'):
                # second difference of the extended array
                Mf, vf = reference('forward', pm, n)
                Mb, vb = reference('backward', pm, n)
                Lr = [[x - y for x, y in zip(r1, r2)]
                      for r1, r2 in zip(Mf, Mb)]
                vr = [x - y for x, y in zip(vf, vb)]
                vv = [x - y for x, y in zip(f[2], b[2])]
                if L != Lr or vv != vr:
                    rep.violation('R4', cons, 'n=%d: not the second '
                                  'difference of the extended array' % n,
                                  REL, ctx.method(REL, 'Laplacian',
                                                  '_call').lineno)
                else:
                    rep.holds('R4', cons + ',n=%d,2nd' % n,
                              'second difference of the extended array')


# --------------------------------------------------------------------------
class _FDTerm(object):
    """Symbolic result of one finite_diff call."""


def _call_wiring(ctx, rep, inits):
    """Interpret the four ``_call`` bodies for a 2-axis domain.  Values:
    arrays are dicts {term: coeff}, a term is the tuple of the resolved
    finite_diff arguments."""
    ND = 2

    def expected(c):
        def T(inp, ax, dx, m):
            return ('FD', inp, ax, dx, m, 'self.pad_mode', 'self.pad_const')
        if c == 'PartialDerivative':
            return {('FD', 'x', 'self.axis', 'self.dx', 'self.method',
                     'self.pad_mode', 'self.pad_const'): Fr(1)}
        if c == 'Gradient':
            return [{T('x', i, 'cell_sides[%d]' % i, 'self.method'): Fr(1)}
                    for i in range(ND)]
        if c == 'Divergence':
            return {T('x[%d]' % i, i, 'cell_sides[%d]' % i, 'self.method'):
                    Fr(1) for i in range(ND)}
        if c == 'Laplacian':
            d = {}
            for i in range(ND):
                d[T('x', i, 'cell_sides[%d]**2' % i, "'forward'")] = Fr(1)
                d[T('x', i, 'cell_sides[%d]**2' % i, "'backward'")] = Fr(-1)
            return d

    for c in ('PartialDerivative', 'Gradient', 'Divergence', 'Laplacian'):
        fn = ctx.method(REL, c, '_call')
        cons = '%s._call' % c
        for mode in ('oop', 'ip'):
            try:
                got = _run_call(fn, c, mode, ND, inits[c])
                want = expected(c)
                if got != want:
                    rep.violation(
                        'R4', cons,
                        '%s arm: result is %s, expected %s'
                        % (mode, _show_fd(got), _show_fd(want)), REL,
                        fn.lineno)
                else:
                    rep.holds('R4', cons + ':' + mode,
                              'per-axis finite_diff wiring as documented')
            except Undecided as e:
                rep.undecided('R4', cons + ':' + mode, str(e), REL,
                              fn.lineno)


def _show_fd(v):
    if isinstance(v, list):
        return '[' + ', '.join(_show_fd(x) for x in v) + ']'
    if v is None:
        return 'undefined'
    return ' + '.join('%s*%s' % (c, ('FD(%s)' % ', '.join(
        '%s' % (a,) for a in t[1:])) if t[0] == 'FD' else
        '<previous contents of the buffer>') for t, c in sorted(
            v.items(), key=lambda kv: str(kv[0]))) or '0'


def _run_call(fn, cname, mode, ND, init):
    """Tiny dedicated interpreter for the four _call bodies."""
    UNDEF = None

    class Buf(object):
        """mutable array-valued buffer: .val dict term->coeff or None; an
        out of place result of Gradient is a list of Bufs."""
        _n = [0]

        def __init__(self, val=UNDEF, garbage=False):
            if val is None:
                # uninitialised memory / previous contents: a symbol that
                # must not survive into the result
                Buf._n[0] += 1
                val = {('STALE', Buf._n[0]): Fr(1)}
            self.val = val
            self.garbage = garbage

    class PBuf(object):
        def __init__(self, parts):
            self.parts = parts

    is_pspace_range = cname == 'Gradient'
    is_pspace_dom = cname == 'Divergence'

    def new_range_elem(garbage):
        if is_pspace_range:
            return PBuf([Buf(None, garbage) for _ in range(ND)])
        return Buf(None, garbage)

    env = {'self': 'SELF', 'x': 'X'}
    if mode == 'ip':
        env['out'] = new_range_elem(True)
    else:
        env['out'] = None

    # attribute values of self
    def self_attr(name):
        if name in ('range', 'domain'):
            return ('space', name)
        if name in ('axis', 'method', 'pad_mode', 'pad_const', 'dx'):
            return ('attr', 'self.' + name)
        raise Undecided('self.%s' % name)

    def sv(node):
        """symbolic scalar/argument rendering of an expression"""
        v = ev(node)
        return render(v)

    def render(v):
        if isinstance(v, tuple) and v[0] == 'attr':
            return v[1]
        if isinstance(v, tuple) and v[0] == 'cs':
            return 'cell_sides[%s]' % (v[1],)
        if isinstance(v, tuple) and v[0] == 'cs2':
            return 'cell_sides[%s]**2' % (v[1],)
        if isinstance(v, tuple) and v[0] == 'xarr':
            return 'x' if v[1] is None else 'x[%s]' % (v[1],)
        if isinstance(v, (int, str)):
            return repr(v) if isinstance(v, str) else v
        raise Undecided('argument value %r' % (v,))

    def ev(node):
        if isinstance(node, ast.Constant):
            return node.value
        if isinstance(node, ast.Name):
            if node.id in env:
                return env[node.id]
            if node.id == 'range':
                return 'RANGE'
            raise Undecided('name %s' % node.id)
        if isinstance(node, ast.Attribute):
            b = ev(node.value)
            if b == 'SELF':
                return self_attr(node.attr)
            if isinstance(b, tuple) and b[0] == 'space':
                if node.attr == 'ndim':
                    return ND
                if node.attr == 'cell_sides':
                    return ('cellsides',)
                if node.attr == 'default_order':
                    return 'ORDER'
                raise Undecided('space attribute %s' % node.attr)
            if isinstance(b, (Buf, PBuf)) and node.attr in (
                    'shape', 'dtype', 'space'):
                return ('space', 'meta') if node.attr == 'space' else 'META'
            raise Undecided('attribute %s' % ast.unparse(node))
        if isinstance(node, ast.Subscript):
            b = ev(node.value)
            i = ev(node.slice)
            if b == ('cellsides',):
                return ('cs', render_idx(i))
            if isinstance(b, PBuf) and isinstance(i, int):
                return b.parts[i]
            if b == 'X' and isinstance(i, int):
                return ('xarr', i)
            raise Undecided('subscript %s' % ast.unparse(node))
        if isinstance(node, ast.BinOp) and isinstance(node.op, ast.Pow):
            b, e = ev(node.left), ev(node.right)
            if isinstance(b, tuple) and b[0] == 'cs' and e == 2:
                return ('cs2', b[1])
            raise Undecided('power %s' % ast.unparse(node))
        if isinstance(node, ast.Call):
            f = node.func
            fname = ast.unparse(f)
            if fname == 'range' and len(node.args) == 1:
                n = ev(node.args[0])
                if not isinstance(n, int):
                    raise Undecided('loop bound %s' % ast.unparse(
                        node.args[0]))
                return list(range(n))
            if fname in ('np.empty', 'np.empty_like'):
                return Buf(None, True)
            if isinstance(f, ast.Attribute) and fname != 'finite_diff':
                b = ev(f.value)
                if isinstance(b, tuple) and b[0] == 'space' and \
                        f.attr == 'element' and not node.args:
                    return new_range_elem(True)
                if isinstance(b, tuple) and b[0] == 'space' and \
                        f.attr == 'zero' and not node.args:
                    r = new_range_elem(False)
                    if isinstance(r, Buf):
                        r.val = {}
                    else:
                        for p_ in r.parts:
                            p_.val = {}
                    return r
                if b == 'X' and f.attr == 'asarray':
                    return ('xarr', None)
                if isinstance(b, (Buf,)) and f.attr == 'asarray':
                    return b
                if isinstance(b, Buf) and f.attr == 'set_zero':
                    b.val = {}
                    b.garbage = False
                    return None
            if fname in ('np.empty', 'np.empty_like'):
                return Buf(None, True)
            if fname == 'finite_diff':
                a = {}
                params = ['f', 'axis', 'dx', 'method', 'out', 'pad_mode',
                          'pad_const']
                fd_def = None
                for i, arg in enumerate(node.args):
                    a[params[i]] = arg
                for k in node.keywords:
                    a[k.arg] = k.value
                inp = ev(a['f'])
                if not (isinstance(inp, tuple) and inp[0] == 'xarr'):
                    raise Undecided('finite_diff input %s' % ast.unparse(
                        a['f']))
                term = ('FD', render(inp), render_idx(ev(a['axis'])),
                        render(ev(a['dx'])) if 'dx' in a else 1,
                        render(ev(a['method'])) if 'method' in a
                        else "'forward'",
                        render(ev(a['pad_mode'])) if 'pad_mode' in a
                        else "'constant'",
                        render(ev(a['pad_const'])) if 'pad_const' in a
                        else 0)
                if 'out' in a:
                    o = ev(a['out'])
                    if not isinstance(o, Buf):
                        raise Undecided('finite_diff out= target')
                    o.val = {term: Fr(1)}
                    o.garbage = False
                    return o
                return Buf({term: Fr(1)})
            raise Undecided('call %s' % fname)
        raise Undecided('expression %s' % ast.unparse(node)[:50])

    def render_idx(i):
        if isinstance(i, tuple) and i[0] == 'attr':
            return i[1]
        return i

    class Ret(Exception):
        def __init__(self, v):
            self.v = v

    def cond(t):
        s = ast.unparse(t)
        if s == 'out is None':
            return env['out'] is None
        if isinstance(t, ast.Compare) and len(t.ops) == 1:
            l, r = ev(t.left), ev(t.comparators[0])
            if isinstance(l, int) and isinstance(r, int):
                if isinstance(t.ops[0], ast.Eq):
                    return l == r
                if isinstance(t.ops[0], ast.NotEq):
                    return l != r
                if isinstance(t.ops[0], ast.Gt):
                    return l > r
        raise Undecided('condition %s' % s)

    def val_of(b):
        if not isinstance(b, Buf):
            raise Undecided('not a buffer')
        return b.val

    def ex(stmts):
        for s in stmts:
            if isinstance(s, ast.Expr):
                if isinstance(s.value, ast.Constant):
                    continue
                ev(s.value)
                continue
            if isinstance(s, ast.If):
                ex(s.body if cond(s.test) else s.orelse)
                continue
            if isinstance(s, ast.Return):
                raise Ret(ev(s.value) if s.value is not None else None)
            if isinstance(s, ast.Assign) and len(s.targets) == 1:
                t = s.targets[0]
                if isinstance(t, ast.Name):
                    env[t.id] = ev(s.value)
                    continue
                if isinstance(t, ast.Subscript) and ast.unparse(t.slice) in (
                        ':', '...'):
                    b = ev(t.value)
                    v = ev(s.value)
                    if isinstance(b, Buf) and isinstance(v, Buf):
                        b.val = dict(val_of(v))
                        b.garbage = False
                        continue
                raise Undecided('assignment %s' % ast.unparse(s)[:50])
            if isinstance(s, ast.AugAssign) and isinstance(s.target,
                                                           ast.Name):
                b = ev(s.target)
                v = ev(s.value)
                if isinstance(b, Buf) and isinstance(v, Buf) and isinstance(
                        s.op, (ast.Add, ast.Sub)):
                    sg = 1 if isinstance(s.op, ast.Add) else -1
                    cur = dict(val_of(b))
                    for k, c in val_of(v).items():
                        cur[k] = cur.get(k, 0) + sg * c
                    b.val = {k: c for k, c in cur.items() if c != 0}
                    continue
                raise Undecided('augmented assignment %s'
                                % ast.unparse(s)[:50])
            if isinstance(s, ast.For) and isinstance(s.target, ast.Name):
                it = ev(s.iter)
                if not isinstance(it, list):
                    raise Undecided('loop over %s' % ast.unparse(s.iter))
                for i in it:
                    env[s.target.id] = i
                    ex(s.body)
                continue
            if isinstance(s, ast.With) and len(s.items) == 1:
                ce = s.items[0].context_expr
                if isinstance(ce, ast.Call) and ast.unparse(ce.func) == \
                        'writable_array' and s.items[0].optional_vars \
                        is not None:
                    b = ev(ce.args[0])
                    if not isinstance(b, Buf):
                        raise Undecided('writable_array(%s)'
                                        % ast.unparse(ce.args[0]))
                    env[s.items[0].optional_vars.id] = b   # alias
                    ex(s.body)
                    continue
                raise Undecided('with %s' % ast.unparse(ce)[:40])
            raise Undecided('statement %s' % ast.unparse(s)[:50])

    ret = None
    try:
        ex(fn.body)
    except Ret as r:
        ret = r.v
    out = env['out'] if mode == 'ip' else ret
    if mode == 'ip' and ret is not None and ret is not env['out']:
        raise Undecided('in-place arm returns a different object')
    if isinstance(out, PBuf):
        res = []
        for p_ in out.parts:
            res.append(p_.val)
        return res
    if isinstance(out, Buf):
        return out.val
    raise Undecided('no result')
