"""C13, evaluated tier: the four finite-difference operator classes are
instantiated on a uniformly discretized 4 x 3 model space with symbolic cell
sides h0, h1 and symbolic entries; their values are compared with the
reference stencils of the named extension rule applied along each axis (R6),
their derivatives with the exact difference A(x + d) - A(x) of these affine
maps (R7), and the adjoints of the affine (constant padding, pad_const != 0)
and mixed-dtype variants with the adjoint of the linear part (R8).  A
tolerance test (`np.allclose`) on operands that are not identical is explored
with both outcomes."""
from __future__ import annotations

import ast

import numpy as _np

from ..core import Undecided
from ..forks import Fork, explore
from ..ratfun import Rat
from ..symex import PyRaise, to_rat
from ..namodel import NA
from ..spacemodel import (SMInterp, NSpace, NPSpace, NElem, NPElem, sym_elem,
                          flat, inner, NotAnElement)
from .. import posalg as PA
from .c05b import H5, witness

REL = 'odl/discr/diff_ops.py'
WIT = [witness(131), witness(132)]
SHAPE = (4, 3)
REF_MODES = ('constant', 'symmetric', 'periodic', 'order0', 'order1',
             'order2')


def D(dtype='float64'):
    hs = [Rat.var('h0'), Rat.var('h1')]
    return NSpace(SHAPE, dtype, hs[0] * hs[1], cell_sides=hs)


def _elem(space, entries):
    it = iter(entries)

    def mk(sp):
        if isinstance(sp, NPSpace):
            return NPElem(sp, [mk(p) for p in sp.parts])
        a = _np.empty(sp.shape, dtype=object)
        for idx in _np.ndindex(*sp.shape):
            a[idx] = next(it)
        return NElem(sp, NA(a, sp.dt))
    return mk(space)


def _stencil(method, pad, axis, arr, c):
    """reference stencil along `axis` of the 2-d object array `arr`,
    divided by nothing (the caller divides by the cell side)."""
    from .c13 import reference
    n = arr.shape[axis]
    M, v = reference(method, pad, n)
    out = _np.empty(arr.shape, dtype=object)
    for idx in _np.ndindex(*arr.shape):
        i = idx[axis]
        acc = Rat.const(0) + Rat.const(v[i]) * c
        for k in range(n):
            if M[i][k] != 0:
                j = list(idx)
                j[axis] = k
                acc = acc + Rat.const(M[i][k]) * arr[tuple(j)]
        out[idx] = acc
    return out


def oracle(cls, method, pad, c, xs, axis=None):
    """entries (C order, components concatenated) of the documented value"""
    h = [Rat.var('h0'), Rat.var('h1')]
    n = SHAPE[0] * SHAPE[1]
    arr = lambda k: _np.array(xs[k * n:(k + 1) * n], dtype=object).reshape(
        SHAPE)
    if cls == 'PartialDerivative':
        return [v / h[axis] for v in _stencil(method, pad, axis, arr(0),
                                              c).flat]
    if cls == 'Gradient':
        out = []
        for ax in (0, 1):
            out += [v / h[ax] for v in _stencil(method, pad, ax, arr(0),
                                                c).flat]
        return out
    if cls == 'Divergence':
        tot = None
        for ax in (0, 1):
            t = [v / h[ax] for v in _stencil(method, pad, ax, arr(ax),
                                             c).flat]
            tot = t if tot is None else [a + b for a, b in zip(tot, t)]
        return tot
    if cls == 'Laplacian':
        tot = None
        for ax in (0, 1):
            f = _stencil('forward', pad, ax, arr(0), c)
            b = _stencil('backward', pad, ax, arr(0), c)
            t = [(p - q) / (h[ax] * h[ax]) for p, q in zip(f.flat, b.flat)]
            tot = t if tot is None else [a + b for a, b in zip(tot, t)]
        return tot
    raise KeyError(cls)


def instances(model):
    def inst(I, cls, *a, **k):
        return I.instantiate(model.get(cls), list(a), k)
    out = []
    cvals = (('', None), (',pad_const=c', Rat.var('c')))
    for m in ('forward', 'backward', 'central'):
        for pm in REF_MODES:
            for tag, c in (cvals if pm == 'constant' else cvals[:1]):
                kw = dict(method=m, pad_mode=pm)
                if c is not None:
                    kw['pad_const'] = c
                cc = c if c is not None else Rat.const(0)
                for ax in (0, 1):
                    out.append(('PartialDerivative[%s,%s,axis=%d%s]' % (
                        m, pm, ax, tag), 'PartialDerivative', m, pm, cc, ax,
                        lambda I, kw=kw, ax=ax: inst(
                            I, 'PartialDerivative', D(), ax, **kw)))
                out.append(('Gradient[%s,%s%s]' % (m, pm, tag), 'Gradient',
                            m, pm, cc, None,
                            lambda I, kw=kw: inst(I, 'Gradient', D(), **kw)))
                out.append(('Divergence[%s,%s%s]' % (m, pm, tag),
                            'Divergence', m, pm, cc, None,
                            lambda I, kw=kw: inst(I, 'Divergence', range=D(),
                                                  **kw)))
    # (the Laplacian documents no first / second order extrapolation)
    for pm in ('constant', 'symmetric', 'periodic', 'order0'):
        for tag, c in (cvals if pm == 'constant' else cvals[:1]):
            kw = dict(pad_mode=pm)
            if c is not None:
                kw['pad_const'] = c
            cc = c if c is not None else Rat.const(0)
            out.append(('Laplacian[%s%s]' % (pm, tag), 'Laplacian', None, pm,
                        cc, None,
                        lambda I, kw=kw: inst(I, 'Laplacian', D(), **kw)))
    # a range that is not the domain (single precision copy of the space)
    out.append(('Laplacian[constant,range of another dtype]', 'Laplacian',
                None, 'constant', Rat.const(0), None,
                lambda I: inst(I, 'Laplacian', D(), range=D('float32'))))
    return out


def evaluate(model, assume, spec):
    name, cls, m, pm, c, ax, build = spec
    H = H5()
    I = SMInterp(model, assume, H)
    A = build(I)
    dom = I.getattr_value(A, 'domain')
    ran = I.getattr_value(A, 'range')
    probs = []

    def conv(space, v):
        if isinstance(v, NA):
            return H.element(I, space, v)
        return v
    x = sym_elem(dom, 'x')
    xs = flat(x)
    ds = [Rat.var('d%d' % k) for k in range(len(xs))]
    Ax = flat(conv(ran, I.call(A, [x], {})))
    # R6: values
    try:
        admitted = True
        want = oracle(cls, m, pm, c, xs, ax)
    except KeyError:
        admitted = False
    if admitted:
        if len(want) != len(Ax):
            probs.append(('R6', '%d entries instead of %d' % (
                len(Ax), len(want))))
        else:
            for k, (a, b) in enumerate(zip(Ax, want)):
                if not PA.same(a, b, WIT):
                    probs.append(('R6', 'entry %d is %r, the %r stencil on '
                                  'the %r extension divided by the cell '
                                  'side gives %r' % (k, a, m or 'second '
                                                     'difference', pm, b)))
                    break
    # R7: derivative = exact difference of the affine map
    lin = None
    try:
        der = I.call(I.getattr_value(A, 'derivative'), [x], {})
    except PyRaise as e:
        probs.append(('R7', 'derivative raises %s' % e.name))
    else:
        Axd = flat(conv(ran, I.call(A, [_elem(dom, [
            a + b for a, b in zip(xs, ds)])], {})))
        lin = [p - q for p, q in zip(Axd, Ax)]
        got = flat(conv(ran, I.call(der, [_elem(dom, ds)], {})))
        for k, (a, b) in enumerate(zip(got, lin)):
            if not PA.same(a, b, WIT):
                probs.append(('R7', 'derivative(x)(d), entry %d, is %r but '
                              'A(x + d) - A(x) is %r' % (k, a, b)))
                break
        if not I.truth_value(I.getattr_value(der, 'is_linear'), None):
            probs.append(('R7', 'the derivative is not flagged linear'))
    # R8: adjoint of the linear part
    try:
        adj = I.getattr_value(A, 'adjoint')
    except PyRaise as e:
        adj = None
        affine = any(not PA.same(v, Rat.const(0), WIT) for v in flat(conv(
            ran, I.call(A, [_elem(dom, [Rat.const(0)] * len(xs))], {}))))
        if not affine:
            probs.append(('R8', 'adjoint of a linear operator raises %s'
                          % e.name))
    if adj is not None and lin is not None:
        if not I.truth_value(I.getattr_value(adj, 'is_linear'), None):
            probs.append(('R8', 'the operator returned as adjoint is not '
                          'linear'))
        ad, ar = I.getattr_value(adj, 'domain'), I.getattr_value(adj,
                                                                'range')
        if not (ad == ran):
            probs.append(('R8', 'adjoint.domain is %r, the range is %r' % (
                ad, ran)))
        if not (ar == dom):
            probs.append(('R8', 'adjoint.range is %r, the domain is %r' % (
                ar, dom)))
        if ad == ran and ar == dom:
            y = sym_elem(ran, 'y')
            Aty = conv(dom, I.call(adj, [y], {}))
            lhs = inner(_elem(ran, lin), y)
            rhs = inner(_elem(dom, ds), Aty)
            if not PA.same(lhs, rhs, WIT):
                probs.append(('R8', '<A\'d, y> and <d, A* y> differ (A\' '
                              'the linear part of the operator)'))
    return probs


def run(rep, model):
    n = 0
    for spec in instances(model):
        name = spec[0]
        line = model.classes[spec[1]].node.lineno
        try:
            leaves = explore(lambda a: evaluate(model, a, spec), limit=16)
        except (Undecided, Fork) as e:
            rep.undecided('R6', name, str(e), REL)
            continue
        except NotAnElement as e:
            rep.violation('R6', name, 'a call yields no element: %s' % e,
                          REL, line)
            continue
        except PyRaise as e:
            rep.violation('R6', name, 'raises %s at `%s`' % (
                e.name, ast.unparse(e.node)[:70] if e.node is not None
                else '?'), REL, getattr(e.node, 'lineno', None))
            continue
        n += 1
        seen = set()
        bad = False
        for assume, probs in leaves:
            for rule, msg in probs:
                if (rule,) in seen:
                    continue
                seen.add((rule,))
                bad = True
                if assume:
                    msg += ' [when %s]' % '; '.join(
                        '%s is %s' % (str(k)[:60], v)
                        for k, v in assume.items())
                rep.violation(rule, name, msg[:900], REL, line)
        if not bad:
            rep.holds('R6', name, 'values = reference stencil / cell side; '
                      'derivative = A(x + d) - A(x); adjoint of the linear '
                      'part (%d path%s)' % (len(leaves),
                                            's' if len(leaves) > 1 else ''))
    rep.floor('R6', 'evaluated finite-difference operators', n, 85)
