"""C11 -- optimised solvers match their reference implementations and resume
exactly.  See DESIGN.md section C11."""
from __future__ import annotations

import ast
import itertools
from fractions import Fraction as Fr

from ..core import Report, Undecided, AnalysisError
from ..srcmodel import Model
from ..forks import explore
from ..ratfun import Rat, satom
from .. import vs
from ..symex import (Interp, Hooks, Inst, OpV, Vec, PVec, SpaceV, FieldV,
                     Func, Builtin, Opaque, ModuleV, PyRaise, is_scalar,
                     to_rat, _Cond)
from ..opalg import OpHooks

ADMM = 'odl/solvers/nonsmooth/admm.py'
ADU = 'odl/solvers/nonsmooth/alternating_dual_updates.py'
DC = 'odl/solvers/nonsmooth/difference_convex.py'
PDHG = 'odl/solvers/nonsmooth/primal_dual_hybrid_gradient.py'
ITER = 'odl/solvers/iterative/iterative.py'
STAT = 'odl/solvers/iterative/statistical.py'
PGRAD = 'odl/solvers/nonsmooth/proximal_gradient_solvers.py'
GRAD = 'odl/solvers/smooth/gradient.py'


# name of a proximal operator symbol -> the step size it was created with
PROX_STEPS = {}


class SolverHooks(OpHooks):
    """Symbolic functionals (proximal / convex_conj / gradient as
    uninterpreted operator symbols), positive step sizes, no early exits,
    optionally symbolic ``zero()`` vectors (inductive mode)."""

    def __init__(self, symbolic_zero=False):
        OpHooks.__init__(self)
        self.symbolic_zero = symbolic_zero
        self.zero_count = {}
        self.callback_log = []
        self.memo = {}

    def functional(self, I, name, dom):
        key = ('fun', name)
        if key not in self.memo:
            self.memo[key] = I.opsym(name, dom, dom.field, False,
                                     functional=True)
        return self.memo[key]

    def on_getattr(self, interp, obj, name):
        I = interp
        if isinstance(obj, OpV) and obj.functional:
            fname = obj.term.name
            dom = obj.domain
            if name == 'proximal':
                def prox(sigma):
                    k = ('prox', fname, repr(to_rat(sigma)) if is_scalar(
                        sigma) else ('vec:' + vs.show(sigma.val) if isinstance(
                            sigma, Vec) else repr(sigma)))
                    if k not in self.memo:
                        self.memo[k] = I.opsym('prox[%s,%s]' % (fname, k[2]),
                                               dom, dom, False)
                        if is_scalar(sigma):
                            PROX_STEPS['prox[%s,%s]' % (fname, k[2])] = \
                                to_rat(sigma)
                    return self.memo[k]
                return Builtin('proximal', prox)
            if name == 'convex_conj':
                return self.functional(I, fname + '*', dom)
            if name == 'gradient':
                k = ('grad', fname)
                if k not in self.memo:
                    self.memo[k] = I.opsym('grad[%s]' % fname, dom, dom,
                                           False)
                return self.memo[k]
        if isinstance(obj, OpV) and name == 'norm':
            return Builtin('opnorm', lambda **kw: Rat.var(
                satom('opnorm', obj.term.name)))
        if isinstance(obj, SpaceV) and name == 'zero' and self.symbolic_zero:
            def zero(s=obj):
                n = self.zero_count.get(s.name, 0)
                self.zero_count[s.name] = n + 1
                return Vec(vs.sym('Z0_%s_%d' % (s.name, n)), s)
            return Builtin('zero', zero)
        return OpHooks.on_getattr(self, interp, obj, name)

    def on_call(self, interp, f, args, kwargs, node):
        if isinstance(f, Func) and f.name == 'normalized_scalar_param_list':
            # summary (the normalisers are the subject of C14-R5)
            param, length = args[0], args[1]
            if isinstance(param, (list, tuple)):
                return list(param)
            return [param] * length
        return OpHooks.on_call(self, interp, f, args, kwargs, node)

    def on_decide(self, interp, cond, node):
        key = cond.key
        # step sizes are positive; iteration counts are what we pass
        if cond.rat is not None:
            r = cond.rat
            if key.startswith(('Lt:', 'LtE:', 'Gt:', 'GtE:')):
                # all symbolic parameters (step sizes, norms) are positive:
                # the sign of l - r is decided when all coefficients agree
                sg = _sign(r)
                if sg is None and any(isinstance(v, tuple) and v and v[0]
                                      in ('norm', 'abs') for v in r.vars()):
                    # `|d| < tol`: the iteration has not converged yet
                    sg = 1
                if sg is not None:
                    if key.startswith(('Lt:', 'LtE:')):
                        return sg < 0
                    return sg > 0
            if key.startswith('eq0:'):
                return False       # norms / inner products are non-zero:
                #                    no early exit
        if key.startswith('cmp:') or key.startswith('opaque:'):
            # convergence tests on norms (`np.abs(d) < tol`), positivity of
            # data: the non-terminating arm
            return False
        return NotImplemented


class _LazyShow(object):
    def __init__(self, vals):
        self.vals = vals

    def __getitem__(self, k):
        return vs.show(self.vals[k])


def _sign(r):
    def ps(p):
        cs = list(p.t.values())
        if cs and all(c > 0 for c in cs):
            return 1
        if cs and all(c < 0 for c in cs):
            return -1
        return None
    a, b = ps(r.n), ps(r.d)
    if a is None or b is None:
        return None
    return a * b


def _callback(hooks):
    def cb(x):
        hooks.callback_log.append(vs.freeze(x.val) if isinstance(x, Vec)
                                  else repr(x))
    return Builtin('callback', cb)


ENDO = [False]


class Env(object):
    def __init__(self, I, hooks):
        self.I = I
        self.h = hooks
        self.X = SpaceV('X', 'R')
        # endo mode (C12-R10): every operator maps X to X, so that branches
        # taken only for domain == range are the ones that run
        self.Y = self.X if ENDO[0] else SpaceV('Y', 'R')
        self.Y2 = self.X if ENDO[0] else SpaceV('Y2', 'R')
        I.real_scalars.update({'tau', 'sigma', 'gamma', 'mu', 'omega',
                               'step', 'ss0', 'ss1', 'lam'})

    def vec(self, name, space):
        return Vec(vs.sym(name), space)

    def fun(self, name, dom):
        return self.h.functional(self.I, name, dom)


def run(model, rel, fname, build, symbolic_zero=False, assume=None):
    """Run solver ``fname`` symbolically.  ``build(env)`` returns (args,
    kwargs, watch) with watch = {label: Vec} whose final values are
    reported.  Returns dict of final values + callback log."""
    def once(assume_):
        hooks = SolverHooks(symbolic_zero)
        I = Interp(model, assume_, hooks)
        # in endo mode a user operator evaluated with out aliased to its
        # input yields a poison symbol (an operator promises nothing for
        # op(v, out=v); proximals do, C10 / C11-R5)
        I.alias_poison = bool(ENDO[0])
        env = Env(I, hooks)
        args, kwargs, watch = build(env)
        # vectors handed in that are not part of the state the caller
        # watches: they are inputs and must come back unchanged
        watched = {id(v) for v in watch.values()}
        inputs = {}

        def visit(v, label):
            if isinstance(v, Vec):
                if id(v) not in watched:
                    inputs[label] = (v, vs.freeze(v.val))
            elif isinstance(v, (list, tuple)):
                for i, z in enumerate(v):
                    visit(z, '%s[%d]' % (label, i))
        for i, v in enumerate(args):
            visit(v, 'argument %d' % i)
        for kk, v in kwargs.items():
            visit(v, kk)
        fn = model.ctx.func(rel, fname)
        if 'callback' in [a.arg for a in fn.args.args] or fn.args.kwarg \
                or 'callback' in [a.arg for a in fn.args.kwonlyargs]:
            kwargs = dict(kwargs)
            kwargs.setdefault('callback', _callback(hooks))
        I.call_func(Func(fn, I.env_of(rel), None), args, kwargs)
        out = {k: vs.freeze(v.val) for k, v in watch.items()}
        shows = _LazyShow({k: dict(v.val) for k, v in watch.items()})
        changed = sorted(lbl for lbl, (v, was) in inputs.items()
                         if vs.freeze(v.val) != was)
        return {'final': out, 'show': shows, 'cb': list(hooks.callback_log),
                'changed_inputs': changed, 'n_inputs': len(inputs),
                'locals': I.last_scope.vars if hasattr(I, 'last_scope')
                else {}}
    leaves = explore(once, limit=40)
    if len(leaves) != 1:
        raise Undecided('%d execution paths (expected one)' % len(leaves))
    return leaves[0][1]


def check(ctx):
    rep = Report(
        'C11', ctx, 'translation_validation',
        'R1: each optimised/simple solver pair is interpreted symbolically '
        '(operators, proximals, gradients uninterpreted; L, K linear; '
        'zero-initialised duals replaced by symbolic vectors so the loop '
        'starts from a generic state) for 1, 2 and 3 iterations; the '
        'iterates handed back (x, y) and the dual/auxiliary variables must '
        'have equal normal forms in the free vector-space algebra.  R2: '
        'for the resumable solvers running n then m iterations (passing '
        'back exactly what the API exposes) gives the same normal form as '
        'n + m at once (PDHG for theta = 1, 0 and 1/2).  R3: the callback receives exactly one iterate per '
        'iteration (per inner iteration when callback_loop == "inner"), '
        'and it is the iterate after the last update.  R5: R1 treats a '
        'proximal as one deterministic function of its argument although '
        'the optimised solvers call it as prox(v, out=v) and the reference '
        'implementations out of place; that premise is discharged for the '
        'library: every aliased proximal call site of the optimised '
        'implementations is listed, and every proximal of the library '
        '(C07 tier instances, at their designated points) is evaluated '
        'with out aliased to the input and must leave the out-of-place '
        'value in it.',
        ['CPython ast', 'vector-space axioms; linear operators distribute',
         'proximal/gradient/operator symbols are deterministic functions '
         'of their argument'],
        ['rounding differences between lincomb and operator arithmetic '
         '("up to rounding" in the statement)', 'random Kaczmarz/adupdates '
         'orderings (the statement fixes the order)'])
    model = Model(ctx)
    _pairs(rep, model)
    _resume(rep, model)
    _callbacks(rep, model)
    _aliased_proximals(ctx, rep, model)
    return rep


OPTIMISED = (('odl/solvers/nonsmooth/admm.py', 'admm_linearized'),
             ('odl/solvers/nonsmooth/alternating_dual_updates.py',
              'adupdates'),
             ('odl/solvers/nonsmooth/difference_convex.py', 'doubleprox_dc'))


def _aliased_proximals(ctx, rep, model):
    """R5: the optimised implementations call proximals in place on their
    own input; the library's proximals must then return what the out-of-place
    call returns."""
    n = 0
    for rel, fname in OPTIMISED:
        fn = None
        if fn is None:
            for node in ctx.tree(rel).body:
                if isinstance(node, ast.FunctionDef) and node.name == fname:
                    fn = node
        if fn is None:
            raise AnalysisError('anchor %s:%s not found' % (rel, fname))
        for c in ast.walk(fn):
            if not isinstance(c, ast.Call) or not c.args:
                continue
            outs = [k.value for k in c.keywords if k.arg == 'out']
            if len(outs) != 1 or not isinstance(outs[0], ast.Name):
                continue
            o, a = outs[0].id, c.args[0]
            # prox(v, out=v) and prox(v.lincomb(...), out=v): lincomb
            # returns the object it was called on
            if (isinstance(a, ast.Name) and a.id == o) or (
                    isinstance(a, ast.Call)
                    and isinstance(a.func, ast.Attribute)
                    and a.func.attr == 'lincomb'
                    and isinstance(a.func.value, ast.Name)
                    and a.func.value.id == o):
                n += 1
                rep.holds('R5', '%s:%s' % (fname, ast.unparse(c)[:60]),
                          'aliased call site; premise discharged by the '
                          'evaluated instances below')
    rep.floor('R5', 'aliased proximal call sites of the optimised solvers',
              n, 3)
    from . import c10b
    c10b.run(rep, model, rule='R5', kinds=('proximal',), floor=60)


# --------------------------------------------------------------------------
def _pairs(rep, model):
    def admm_build(n):
        def b(e):
            x = e.vec('x', e.X)
            L = e.I.opsym('L', e.X, e.Y, True)
            return ([x, e.fun('f', e.X), e.fun('g', e.Y), L,
                     Rat.var('tau'), Rat.var('sigma'), n], {}, {'x': x})
        return b

    def adu_build(n):
        def b(e):
            x = e.vec('x', e.X)
            L = [e.I.opsym('L0', e.X, e.Y, True),
                 e.I.opsym('L1', e.X, e.Y2, True)]
            g = [e.fun('g0', e.Y), e.fun('g1', e.Y2)]
            return ([x, g, L, Rat.var('step'),
                     [Rat.var('ss0'), Rat.var('ss1')], n], {}, {'x': x})
        return b

    def adu_build_vec(n):
        # array-like inner step size for the first dual variable
        def b(e):
            x = e.vec('x', e.X)
            L = [e.I.opsym('L0', e.X, e.Y, True),
                 e.I.opsym('L1', e.X, e.Y2, True)]
            g = [e.fun('g0', e.Y), e.fun('g1', e.Y2)]
            return ([x, g, L, Rat.var('step'),
                     [e.vec('ssv', e.Y), Rat.var('ss1')], n], {}, {'x': x})
        return b

    def dc_build(n):
        def b(e):
            x = e.vec('x', e.X)
            y = e.vec('y', e.Y)
            K = e.I.opsym('K', e.X, e.Y, True)
            return ([x, y, e.fun('f', e.X), e.fun('phi', e.X),
                     e.fun('g', e.Y), K, n, Rat.var('gamma'),
                     Rat.var('mu')], {}, {'x': x, 'y': y})
        return b

    pairs = [(ADMM, 'admm_linearized', 'admm_linearized_simple', admm_build,
              ['z', 'u']),
             (ADU, 'adupdates', 'adupdates_simple', adu_build, ['duals']),
             (ADU, 'adupdates', 'adupdates_simple', adu_build_vec,
              ['duals']),
             (DC, 'doubleprox_dc', 'doubleprox_dc_simple', dc_build, [])]
    for rel, opt, simple, build, state in pairs:
        fn = model.ctx.func(rel, opt)
        model.ctx.func(rel, simple)
        for n in (1, 2, 3):
            tag = '%s~%s[niter=%d%s]' % (opt, simple, n, ',array step'
                                         if build is adu_build_vec else '')
            try:
                a = run(model, rel, opt, build(n), symbolic_zero=True)
                b = run(model, rel, simple, build(n), symbolic_zero=True)
            except Undecided as e:
                rep.undecided('R1', tag, str(e), rel, fn.lineno)
                continue
            except PyRaise as e:
                rep.violation('R1', opt, '%s: raises %s' % (tag, e.name),
                              rel, fn.lineno)
                continue
            diffs = []
            for k in a['final']:
                if a['final'][k] != b['final'][k]:
                    diffs.append('%s: optimised %s, reference %s'
                                 % (k, a['show'][k], b['show'][k]))
            # dual / auxiliary state (locals with the same name)
            for nm in state:
                va, vb = a['locals'].get(nm), b['locals'].get(nm)
                fa, fb = _fz(va), _fz(vb)
                if fa is None or fb is None:
                    continue
                if fa != fb:
                    diffs.append('state variable %s differs' % nm)
            if diffs:
                rep.violation('R1', opt, '%s: %s' % (tag, '; '.join(diffs)),
                              rel, fn.lineno)
            else:
                rep.holds('R1', tag, 'iterates and state equal')
            for which, r in ((opt, a), (simple, b)):
                if r['changed_inputs']:
                    rep.violation(
                        'R2i', which, '%s: %s overwrites its input %s'
                        % (tag, which, ', '.join(r['changed_inputs'])), rel,
                        fn.lineno)
                elif r['n_inputs']:
                    rep.holds('R2i', '%s:%s' % (tag, which),
                              '%d input vectors unchanged' % r['n_inputs'])
    rep.count('programs', 2 * len(pairs))


def _fz(v):
    if isinstance(v, Vec):
        return vs.freeze(v.val)
    if isinstance(v, list) and all(isinstance(x, Vec) for x in v):
        return tuple(vs.freeze(x.val) for x in v)
    return None


# --------------------------------------------------------------------------
def _inplace_projection(e):
    """An in-place projection handed to a solver: x <- P(x), P an
    uninterpreted nonlinear map."""
    P = vs.OSym('P', False, e.I.reg)

    def proj(v):
        v.val = P.apply(v.val)
    return Builtin('projection', proj)


def _resume(rep, model):
    """R2: n then m iterations == n + m iterations."""
    def landweber(e, x, n):
        op = e.I.opsym('A', e.X, e.Y, False)
        return [op, x, e.vec('rhs', e.Y), n], {'omega': Rat.var('omega')}

    def kaczmarz(e, x, n):
        ops = [e.I.opsym('A0', e.X, e.Y, False),
               e.I.opsym('A1', e.X, e.Y2, False)]
        rhs = [e.vec('r0', e.Y), e.vec('r1', e.Y2)]
        return [ops, x, rhs, n], {'omega': [Rat.var('omega'),
                                            Rat.var('step')]}

    def prox_grad(e, x, n):
        return [x, e.fun('f', e.X), e.fun('g', e.X), Rat.var('gamma'), n], \
            {'lam': Rat.var('lam')}

    def osmlem(e, x, n):
        ops = [e.I.opsym('A0', e.X, e.Y, True),
               e.I.opsym('A1', e.X, e.Y2, True)]
        data = [e.vec('d0', e.Y), e.vec('d1', e.Y2)]
        return [ops, x, data, n], {}

    def mlem(e, x, n):
        return [e.I.opsym('A', e.X, e.Y, True), x, e.vec('d', e.Y), n], {}

    def osmlem_sens(e, x, n):
        a, k = osmlem(e, x, n)
        return a, {'sensitivities': [e.vec('s0', e.X), e.vec('s1', e.X)]}
    osmlem_sens.tag = '[sensitivities given]'

    def mlem_sens(e, x, n):
        a, k = mlem(e, x, n)
        return a, {'sensitivities': [e.vec('s', e.X)]}
    mlem_sens.tag = '[sensitivities given]'

    def steepest(e, x, n):
        return [e.fun('f', e.X), x], {'line_search': Rat.var('step'),
                                      'maxiter': n}

    def with_proj(mk):
        def mk2(e, x, n):
            a, k = mk(e, x, n)
            k = dict(k)
            k['projection'] = _inplace_projection(e)
            return a, k
        mk2.proj = True
        return mk2

    cases = [(ITER, 'landweber', landweber), (ITER, 'kaczmarz', kaczmarz),
             (PGRAD, 'proximal_gradient', prox_grad),
             (STAT, 'osmlem', osmlem), (STAT, 'mlem', mlem),
             (STAT, 'osmlem', osmlem_sens), (STAT, 'mlem', mlem_sens),
             (GRAD, 'steepest_descent', steepest),
             (ITER, 'landweber', with_proj(landweber)),
             (ITER, 'kaczmarz', with_proj(kaczmarz)),
             (GRAD, 'steepest_descent', with_proj(steepest))]
    for rel, name, mk in cases:
        fn = model.ctx.func(rel, name)
        for n, m in ((1, 1), (2, 1), (1, 2)):
            tag = '%s%s%s[%d+%d]' % (name, '[projection]' if getattr(
                mk, 'proj', False) else '', getattr(mk, 'tag', ''), n, m)
            try:
                # n + m at once; every vector handed in besides the iterate
                # must come back unchanged (R2i, watched by `run`)
                def b_all(e):
                    x = e.vec('x', e.X)
                    a, k = mk(e, x, n + m)
                    return a, k, {'x': x}
                whole = run(model, rel, name, b_all)
                if whole['changed_inputs']:
                    rep.violation(
                        'R2i', name, '%s: the solver overwrites its input %s '
                        '(a second call with the same objects continues '
                        'from different data)' % (tag, ', '.join(
                            whole['changed_inputs'])), rel, fn.lineno)
                elif whole['n_inputs']:
                    rep.holds('R2i', tag, '%d input vectors unchanged'
                              % whole['n_inputs'])

                # n, then m more, from the iterate alone
                def b_split(e):
                    x = e.vec('x', e.X)
                    a, k = mk(e, x, n)
                    e._second = mk
                    return a, k, {'x': x}
                first = run(model, rel, name, b_split)

                def b_second(e):
                    x = Vec(vs.thaw(first['final']['x']), e.X)
                    a, k = mk(e, x, m)
                    return a, k, {'x': x}
                second = run(model, rel, name, b_second)
            except Undecided as e:
                rep.undecided('R2', tag, str(e), rel, fn.lineno)
                continue
            except PyRaise as e:
                rep.violation('R2', name, '%s: raises %s' % (tag, e.name),
                              rel, fn.lineno)
                continue
            if second['final']['x'] != whole['final']['x']:
                rep.violation(
                    'R2', name,
                    '%s: running %d then %d iterations from the returned '
                    'iterate gives a different iterate than %d at once: the '
                    'solver carries hidden state across iterations'
                    % (tag, n, m, n + m), rel, fn.lineno)
            else:
                rep.holds('R2', tag, 'state is the iterate alone')
    # pdhg with x_relax and y passed back, for the relaxation parameters
    # theta = 1 (default), theta = 0 (no extrapolation) and theta = 1/2
    fn = model.ctx.func(PDHG, 'pdhg')
    variants = [('', {}), (',theta=0', {'theta': 0}),
                (',theta=1/2', {'theta': Rat.const(Fr(1, 2))})]
    for (n, m), (vtag, extra) in itertools.product(
            ((1, 1), (2, 1), (1, 2)), variants):
        tag = 'pdhg[%d+%d%s]' % (n, m, vtag)
        try:
            def mk(e, x, xr, y, k):
                L = e.I.opsym('L', e.X, e.Y, True)
                kw = {'tau': Rat.var('tau'), 'sigma': Rat.var('sigma'),
                      'x_relax': xr, 'y': y}
                kw.update(extra)
                return [x, e.fun('f', e.X), e.fun('g', e.Y), L, k], kw

            def b_all(e):
                x, xr, y = e.vec('x', e.X), e.vec('xr', e.X), e.vec('y', e.Y)
                a, k = mk(e, x, xr, y, n + m)
                return a, k, {'x': x, 'x_relax': xr, 'y': y}
            whole = run(model, PDHG, 'pdhg', b_all)

            def b_first(e):
                x, xr, y = e.vec('x', e.X), e.vec('xr', e.X), e.vec('y', e.Y)
                a, k = mk(e, x, xr, y, n)
                return a, k, {'x': x, 'x_relax': xr, 'y': y}
            first = run(model, PDHG, 'pdhg', b_first)

            def b_second(e):
                x = Vec(vs.thaw(first['final']['x']), e.X)
                xr = Vec(vs.thaw(first['final']['x_relax']), e.X)
                y = Vec(vs.thaw(first['final']['y']), e.Y)
                a, k = mk(e, x, xr, y, m)
                return a, k, {'x': x, 'x_relax': xr, 'y': y}
            second = run(model, PDHG, 'pdhg', b_second)
        except Undecided as e:
            rep.undecided('R2', tag, str(e), PDHG, fn.lineno)
            continue
        except PyRaise as e:
            rep.violation('R2', 'pdhg', '%s: raises %s' % (tag, e.name),
                          PDHG, fn.lineno)
            continue
        bad = [k for k in ('x', 'x_relax', 'y')
               if second['final'][k] != whole['final'][k]]
        if bad:
            rep.violation(
                'R2', 'pdhg',
                '%s: resuming with the exposed x_relax and y gives a '
                'different %s than running %d iterations at once: the '
                'caller\'s objects are not updated in place, or hidden '
                'state is carried' % (tag, bad, n + m), PDHG, fn.lineno)
        else:
            rep.holds('R2', tag, 'x, x_relax, y updated in place; resumes '
                      'exactly')


# --------------------------------------------------------------------------
def aliased_operator_calls(rep, model, rule='R10'):
    """The solvers that take user operators are run for two iterations
    with operators that map X to X; no operator (or adjoint) may be
    evaluated with `out` aliased to its input - the result would be
    unspecified for every operator that is not alias-safe (finite
    differences, block operators ...)."""
    ENDO[0] = True
    try:
        _callbacks(rep, model, rule=rule, final_only='poison', floor=12)
    finally:
        ENDO[0] = False


def _callbacks(rep, model, rule='R3', final_only=False, floor=10):
    """R3: one callback per iteration with the current iterate.  With
    ``final_only`` (used by C12-R9) only the clause about the caller's
    iterate is reported: after n iterations the object the caller passed
    holds the iterate the n-th iteration produced."""
    def simple(rel, name, mk, niter_kw=None, inner=None):
        return (rel, name, mk, inner)

    def landweber(e, x, n, **kw):
        return [e.I.opsym('A', e.X, e.Y, False), x, e.vec('rhs', e.Y), n], \
            {'omega': Rat.var('omega')}

    def _projection(e):
        # an in-place projection: x <- P(x)
        P = vs.OSym('P', False, e.I.reg)

        def proj(v):
            v.val = P.apply(v.val)
        return Builtin('projection', proj)

    def landweber_proj(e, x, n, **kw):
        a, k = landweber(e, x, n)
        k['projection'] = _projection(e)
        return a, k

    def kaczmarz_proj(e, x, n, loop='outer'):
        a, k = kaczmarz(e, x, n, loop)
        k['projection'] = _projection(e)
        return a, k

    def kaczmarz(e, x, n, loop='outer'):
        ops = [e.I.opsym('A0', e.X, e.Y, False),
               e.I.opsym('A1', e.X, e.Y2, False)]
        return [ops, x, [e.vec('r0', e.Y), e.vec('r1', e.Y2)], n], \
            {'omega': Rat.var('omega'), 'callback_loop': loop}

    def cg(e, x, n, **kw):
        return [e.I.opsym('A', e.X, e.X, True), x, e.vec('rhs', e.X), n], {}

    def cgn(e, x, n, **kw):
        return [e.I.opsym('A', e.X, e.Y, True), x, e.vec('rhs', e.Y), n], {}

    def prox_grad(e, x, n, **kw):
        return [x, e.fun('f', e.X), e.fun('g', e.X), Rat.var('gamma'), n], {}

    def admm(e, x, n, **kw):
        return [x, e.fun('f', e.X), e.fun('g', e.Y),
                e.I.opsym('L', e.X, e.Y, True), Rat.var('tau'),
                Rat.var('sigma'), n], {}

    def adu(e, x, n, loop='outer'):
        L = [e.I.opsym('L0', e.X, e.Y, True), e.I.opsym('L1', e.X, e.Y2,
                                                        True)]
        return [x, [e.fun('g0', e.Y), e.fun('g1', e.Y2)], L,
                Rat.var('step'), [Rat.var('ss0'), Rat.var('ss1')], n], \
            {'callback_loop': loop}

    def dc(e, x, n, **kw):
        return [x, e.vec('y', e.Y), e.fun('f', e.X), e.fun('phi', e.X),
                e.fun('g', e.Y), e.I.opsym('K', e.X, e.Y, True), n,
                Rat.var('gamma'), Rat.var('mu')], {}

    def dca(e, x, n, **kw):
        return [x, e.fun('f', e.X), e.fun('g', e.X), n], {}

    def prox_dca(e, x, n, **kw):
        return [x, e.fun('f', e.X), e.fun('g', e.X), n, Rat.var('gamma')], {}

    def pdhg(e, x, n, **kw):
        return [x, e.fun('f', e.X), e.fun('g', e.Y),
                e.I.opsym('L', e.X, e.Y, True), n], {
                    'tau': Rat.var('tau'), 'sigma': Rat.var('sigma')}

    def osmlem(e, x, n, **kw):
        ops = [e.I.opsym('A0', e.X, e.Y, True), e.I.opsym('A1', e.X, e.Y2,
                                                          True)]
        return [ops, x, [e.vec('d0', e.Y), e.vec('d1', e.Y2)], n], {}

    def steepest(e, x, n, **kw):
        return [e.fun('f', e.X), x], {'line_search': Rat.var('step'),
                                      'maxiter': n}

    FB = 'odl/solvers/nonsmooth/forward_backward.py'
    DR = 'odl/solvers/nonsmooth/douglas_rachford.py'

    def fbpd(e, x, n, **kw):
        return [x, e.fun('f', e.X), [e.fun('g0', e.Y)],
                [e.I.opsym('L0', e.X, e.Y, True)], e.fun('h', e.X),
                Rat.var('tau'), [Rat.var('sigma0')], n], {}

    def drpd(e, x, n, **kw):
        return [x, e.fun('f', e.X), [e.fun('g0', e.Y)],
                [e.I.opsym('L0', e.X, e.Y, True)], n], {
                    'tau': Rat.var('tau'), 'sigma': [Rat.var('sigma0')]}

    cases = [
        (FB, 'forward_backward_pd', fbpd, None, 1),
        (DR, 'douglas_rachford_pd', drpd, None, 1),
        (ITER, 'landweber', landweber, None, 1),
        (ITER, 'landweber', landweber_proj, None, 1),
        (ITER, 'kaczmarz', kaczmarz_proj, 'outer', 1),
        (ITER, 'kaczmarz', kaczmarz_proj, 'inner', 2),
        (ITER, 'kaczmarz', kaczmarz, 'outer', 1),
        (ITER, 'kaczmarz', kaczmarz, 'inner', 2),
        (ITER, 'conjugate_gradient', cg, None, 1),
        (ITER, 'conjugate_gradient_normal', cgn, None, 1),
        (PGRAD, 'proximal_gradient', prox_grad, None, 1),
        (PGRAD, 'accelerated_proximal_gradient', prox_grad, None, 1),
        (ADMM, 'admm_linearized', admm, None, 1),
        (ADU, 'adupdates', adu, 'outer', 1),
        (ADU, 'adupdates', adu, 'inner', 2),
        (DC, 'doubleprox_dc', dc, None, 1),
        (DC, 'dca', dca, None, 1),
        (DC, 'prox_dca', prox_dca, None, 1),
        (PDHG, 'pdhg', pdhg, None, 1),
        (STAT, 'osmlem', osmlem, None, 2),
        (GRAD, 'steepest_descent', steepest, None, 1),
    ]
    n_ok = 0
    for rel, name, mk, loop, per_iter in cases:
        fn = model.ctx.func(rel, name)
        tag = '%s%s%s' % (name, '[callback_loop=%s]' % loop if loop else '',
                          '[projection]' if mk.__name__.endswith('_proj')
                          else '')
        try:
            logs = {}
            finals = {}
            for n in (1, 2, 3):
                def b(e, n=n):
                    x = e.vec('x', e.X)
                    a, k = mk(e, x, n, loop=loop) if loop else mk(e, x, n)
                    return a, k, {'x': x}
                r = run(model, rel, name, b)
                logs[n] = r['cb']
                finals[n] = r['final']['x']
        except Undecided as e:
            rep.undecided(rule, tag, str(e), rel, fn.lineno)
            continue
        except PyRaise as e:
            rep.violation(rule, name, '%s: raises %s' % (tag, e.name), rel,
                          fn.lineno)
            continue
        probs = []
        if final_only == 'poison':
            for n in (1, 2, 3):
                if 'aliased-call' in repr(finals[n]):
                    probs.append('after %d iteration%s the iterate depends '
                                 'on an operator evaluated with out aliased '
                                 'to its input: %s' % (
                                     n, 's' if n > 1 else '',
                                     vs.show(vs.thaw(finals[n]))[:200]))
                    break
        elif final_only:
            for n in (1, 2, 3):
                if logs[n] and logs[n][-1] != finals[n]:
                    probs.append('after %d iteration%s the caller\'s x does '
                                 'not hold the iterate that iteration '
                                 'produced (the one handed to the callback)'
                                 % (n, 's' if n > 1 else ''))
                if n > 1 and finals[n] == finals[n - 1]:
                    probs.append('the caller\'s x is the same after %d and '
                                 '%d iterations from a generic start'
                                 % (n - 1, n))
        for n in (() if final_only else (1, 2, 3)):
            if len(logs[n]) != n * per_iter:
                probs.append('%d callback calls in %d iterations (expected '
                             '%d)' % (len(logs[n]), n, n * per_iter))
            elif logs[n] and logs[n][-1] != finals[n]:
                probs.append('the last callback does not see the final '
                             'iterate')
        # iterate k seen by the callback is the result of k iterations
        for n in (() if final_only else (1, 2)):
            if len(logs[3]) == 3 * per_iter and len(logs[n]) == n * per_iter:
                if logs[3][n * per_iter - 1] != finals[n]:
                    probs.append('callback %d does not receive the iterate '
                                 'after iteration %d' % (n * per_iter, n))
        if probs:
            rep.violation(rule, name, '%s: %s' % (tag, '; '.join(
                sorted(set(probs)))), rel, fn.lineno)
        else:
            n_ok += 1
            rep.holds(rule, tag, 'no user operator is evaluated with out '
                      'aliased to its input' if final_only == 'poison' else
                      'the caller\'s x holds the iterate of the '
                      'last iteration, for 1, 2 and 3 iterations'
                      if final_only else 'exactly %d callback(s) per '
                      'iteration with the current iterate' % per_iter)
    rep.floor(rule, 'solver loops with callback analysed', n_ok, floor)
