"""C02 -- inner product, norm and distance obey their axioms and the
documented weighting.  See DESIGN.md section C02.

The weighting classes are *evaluated* by the symbolic interpreter on small
arrays with symbolic entries (real and complex, 1-d and 2-d, C- and
F-ordered) and compared -- as identities in the entries, the weights and the
scalars -- with the documented closed forms.  The axioms that are identities
(conjugate symmetry, linearity in the first argument, absolute homogeneity,
dist = norm of the difference, symmetry of dist, norm = sqrt(inner) for
p = 2) are checked on the computed expressions themselves; the inequalities
(positivity, Cauchy-Schwarz, triangle) are consequences of the verified
closed form with positive weights and are not re-proved.
"""
from __future__ import annotations

import ast
import itertools
import zlib
from fractions import Fraction as Fr

import numpy as _np

from ..core import Report, Undecided, AnalysisError
from ..srcmodel import Model
from ..forks import explore
from ..ratfun import Rat, satom
from ..symex import (Interp, Hooks, Inst, Func, Builtin, Opaque, Rec, SArr,
                     NPV, ModuleV, PyRaise, is_scalar, to_rat)
from ..namodel import (NA, NAHooks, NAInterp, NAMixin, DT, symbols, filled,
                       na_of, as_dt, objarr)
from .. import posalg as PA

NPY = 'odl/space/npy_tensors.py'
WGT = 'odl/space/weighting.py'
PSP = 'odl/space/pspace.py'
DSP = 'odl/discr/discr_space.py'
PART = 'odl/discr/partition.py'

INF = Opaque('inf')
IU = Rat.var('I')


class TensorV(object):
    """A tensor element: data array + space record."""

    isinstance_names = ('NumpyTensor', 'Tensor', 'LinearSpaceElement')

    def __init__(self, data, space, big=False):
        self.data = data
        self.space = space
        self.big = big


class CompV(object):
    """Component of a product-space element with symbolic norm / inner."""

    isinstance_names = ('LinearSpaceElement',)

    def __init__(self, name, space):
        self.name = name
        self.space = space


class PV(object):
    """Product-space element."""

    isinstance_names = ('ProductSpaceElement', 'LinearSpaceElement')

    def __init__(self, parts, space):
        self.parts = parts
        self.space = space

    def model_iter(self):
        return list(self.parts)

    def __len__(self):
        return len(self.parts)


def max_nf(vals, signs=None):
    flat = []
    for v in vals:
        v = to_rat(v)
        flat.extend(_max_args(v))
    uniq = []
    for v in flat:
        if not any((v - u).is_zero() for u in uniq):
            uniq.append(v)
    if len(uniq) == 1:
        return uniq[0]
    # common monomial factor of all arguments (all arguments are
    # non-negative monomials in positive variables / atoms)
    common = None
    if signs is not None and all(u.d.is_const() and len(u.n.t) == 1
                                 for u in uniq):
        for u in uniq:
            g = {v: e for v, e in PA._content(u.n).items()
                 if signs.is_pos_var(v)}
            if common is None:
                common = g
            else:
                common = {v: min(e, g[v]) for v, e in common.items()
                          if v in g}
    fac = Rat.const(1)
    if common:
        for v, e in common.items():
            fac = fac * Rat.var(v) ** e
        uniq = [Rat(PA._div_mono(u.n, common), u.d) for u in uniq]
    return fac * Rat.var(satom('max', tuple(sorted(uniq, key=repr))))


def _max_args(v):
    """max(a, b) * f  ->  [a*f, b*f] when v is a positive multiple of one
    max atom; else [v]."""
    for a in v.vars():
        if isinstance(a, tuple) and a[0] == 'max':
            if PA._content(v.n).get(a, 0) != 1 or a in v.d.vars():
                continue
            q = Rat(PA._div_mono(v.n, {a: 1}), v.d)
            if a not in q.vars():
                return [z * q for z in a[1]]
    return [v]


def scalar(v):
    if isinstance(v, NA):
        if v.a.size != 1:
            raise Undecided('array result %r' % (v,))
        v = v.a.flat[0]
    return to_rat(v)


class WH(NAHooks):
    def __init__(self, signs, blas=False):
        self.signs = signs
        self.blas = blas
        self.ip = {}

    def comp_inner(self, a, b):
        """Inner product of two product-space components: a symbol, with
        <x, x> = ||x||^2 and <y, x> = conj <x, y>."""
        if a is b or a.name == b.name:
            n = Rat.var(satom('norm', a.name))
            return n * n
        cplx = a.space.attrs['dtype'].d.kind == 'c'
        lo, hi = sorted([a.name, b.name])
        v = Rat.var('ip_%s_%s' % (lo, hi))
        if cplx:
            v = v + IU * Rat.var('ipi_%s_%s' % (lo, hi))
            if a.name != lo:
                v = PA.conj(v)
        return v

    # ---- element functions with normal forms -------------------------------
    def atom1(self, name):
        if name in ('abs', 'absolute'):
            return lambda x: PA.abs_nf(to_rat(x), self.signs)
        if name == 'sqrt':
            return lambda x: PA.root(PA.ired(to_rat(x)), 2, self.signs)
        if name in ('conj', 'conjugate'):
            return lambda x: PA.conj(to_rat(x))
        if name == 'real':
            return lambda x: PA.real_part(to_rat(x))
        if name == 'imag':
            return lambda x: PA.imag_part(to_rat(x))
        return NAHooks.atom1(self, name)

    def maxmin(self, I, name, x, y):
        if name.startswith('max'):
            return max_nf([x, y], self.signs)
        return NAHooks.maxmin(self, I, name, x, y)

    def linalg_norm(self, I, v, ord=None, **k):
        ent = [PA.ired(to_rat(x)) for x in v.a.ravel()]
        if ord is None or (is_scalar(ord) and to_rat(ord) == Rat.const(2)):
            tot = Rat.const(0)
            for z in ent:
                tot = tot + PA.ired(z * PA.conj(z))
            return PA.root(tot, 2, self.signs)
        if ord is INF:
            return max_nf([PA.abs_nf(z, self.signs) for z in ent],
                          self.signs)
        p = to_rat(ord)
        if not p.is_const():
            raise Undecided('symbolic norm order')
        p = p.constant()
        tot = Rat.const(0)
        for z in ent:
            tot = tot + PA.pow_q(PA.abs_nf(z, self.signs), p, self.signs)
        return PA.pow_q(tot, 1 / p, self.signs)

    # ---- np namespace: accept tensor elements where arrays are expected ---
    def np_func(self, I, name):
        H = self
        if name == 'power':
            def power(a, p, out=None, **k):
                pc = to_rat(p)
                if not pc.is_const():
                    raise Undecided('symbolic power')
                res = H.elementwise(
                    I, lambda x: PA.pow_q(to_rat(x), pc.constant(),
                                         H.signs),
                    _arr(a))
                if out is not None:
                    H.store(I, out, Ellipsis, res)
                    return out
                return res
            return power
        if name == 'fromiter':
            def fromiter(it, dtype=None, count=-1):
                vals = list(it)
                if count not in (-1, len(vals)):
                    raise PyRaise('ValueError')
                return NA(objarr(vals), as_dt(dtype))
            return fromiter
        if name in ('isfinite',):
            return lambda v: True
        if name in ('isclose', 'allclose'):
            def close(a, b, **k):
                aa = [to_rat(x) for x in (na_of(a).a.ravel()
                                          if not is_scalar(a) else [a])]
                bb = to_rat(b)
                return all((x - bb).is_zero() for x in aa)
            return close
        if name == 'iinfo':
            return lambda *a: Rec('iinfo', max=2 ** 31 - 1)
        f = NAHooks.np_func(self, I, name)
        if f is None or not callable(f) or isinstance(f, (Opaque, ModuleV)):
            return f

        def g(*a, **k):
            return f(*[_arr(x) for x in a], **k)
        return g

    # ---- hooks -----------------------------------------------------------------------
    def on_name(self, interp, name):
        if name == 'float':
            def fl(v=0):
                if v == 'inf':
                    return INF
                if v is INF:
                    return v
                if isinstance(v, NA) and v.a.size == 1:
                    v = v.a.flat[0]
                r = PA.ired(to_rat(v))
                if 'I' in r.vars():
                    raise PyRaise('TypeError')
                return r
            return Builtin('float', fl)
        if name == 'complex':
            return Builtin('complex', lambda v=0: PA.ired(to_rat(
                v.a.flat[0] if isinstance(v, NA) else v)))
        if name == 'partial':
            def partial(f, *pre, **pk):
                def call(*a, **k):
                    kk = dict(pk)
                    kk.update(k)
                    return interp.call(f, list(pre) + list(a), kk)
                return Builtin('partial', call)
            return Builtin('partial', partial)
        if name == 'native':
            return Builtin('native', lambda v: v)
        if name == 'scipy':
            return ModuleV('scipy')
        return NotImplemented

    def on_call(self, interp, f, args, kwargs, node):
        I = interp
        if isinstance(f, Func):
            if f.name == '_blas_is_applicable':
                return self.blas
            if f.name in ('is_real_dtype', 'is_real_floating_dtype'):
                return as_dt(args[0]).d.kind in 'biuf'
            if f.name == 'is_numeric_dtype':
                return as_dt(args[0]).d.kind in 'biufc'
        if isinstance(f, ModuleV) and f.name.endswith('get_blas_funcs') \
                and args[0] in ('dot', 'dotu', 'dotc'):
            # level-1 BLAS: dot / dotu = sum x_i y_i, dotc = sum conj(x_i)
            # y_i (the FIRST argument is conjugated)
            kind = args[0]

            def bdot(x, y, **k):
                xa, ya = na_of(x).a.ravel(), na_of(y).a.ravel()
                if len(xa) != len(ya):
                    raise PyRaise('ValueError')
                tot = Rat.const(0)
                for p_, q_ in zip(xa, ya):
                    p_, q_ = to_rat(p_), to_rat(q_)
                    tot = tot + (PA.conj(p_) if kind == 'dotc' else p_) * q_
                return PA.ired(tot)
            return Builtin(kind, bdot)
        if isinstance(f, ModuleV) and f.name.endswith('get_blas_funcs'):
            if args[0] != 'nrm2':
                raise Undecided('BLAS function %r' % (args[0],))

            def nrm2(x, n=None, **k):
                x = na_of(x)
                a = x.a if n is None else x.a[:n]
                return self.linalg_norm(I, NA(a, x.dt), None)
            return Builtin('nrm2', nrm2)
        return NotImplemented

    def on_getattr(self, interp, obj, name):
        I = interp
        if isinstance(obj, TensorV):
            d = obj.data
            if name == 'data':
                return d
            if name == 'dtype':
                return d.dt
            if name == 'size':
                return 10 ** 6 if obj.big else d.a.size
            if name == 'ndim':
                return d.a.ndim
            if name == 'shape':
                return d.a.shape
            if name == 'space':
                return obj.space
            if name == 'tensor':
                return obj
            if name == 'asarray':
                return Builtin('asarray', lambda **k: d)
            if name == 'real':
                return TensorV(self.elementwise(
                    I, self.atom1('real'), d, dt=DT('float64')), obj.space)
            raise PyRaise('AttributeError')
        if isinstance(obj, CompV):
            if name == 'space':
                return obj.space
            if name == 'dtype':
                return obj.space.attrs['dtype']
            if name == 'norm':
                return Builtin('norm', lambda: Rat.var(satom(
                    'norm', obj.name)))
            if name == 'inner':
                return Builtin('inner', lambda o: self.comp_inner(obj, o))
            raise PyRaise('AttributeError')
        if isinstance(obj, PV):
            if name == 'space':
                return obj.space
            if name == 'parts':
                return list(obj.parts)
            if name == 'dtype':
                return obj.space.attrs['dtype']
            raise PyRaise('AttributeError')
        if isinstance(obj, Rec):
            if name in obj.attrs:
                return obj.attrs[name]
            raise PyRaise('AttributeError')
        if is_scalar(obj) and name == 'real':
            return PA.real_part(to_rat(obj))
        if is_scalar(obj) and name == 'imag':
            return PA.imag_part(to_rat(obj))
        if isinstance(obj, ModuleV) and obj.name.startswith('scipy'):
            return ModuleV(obj.name + '.' + name)
        return NAHooks.on_getattr(self, interp, obj, name)

    def on_subscript(self, interp, obj, idx):
        if isinstance(obj, PV):
            return obj.parts[idx]
        return NAHooks.on_subscript(self, interp, obj, idx)

    def on_binop(self, interp, op, l, r):
        I = interp
        if isinstance(l, TensorV) or isinstance(r, TensorV):
            sp = l.space if isinstance(l, TensorV) else r.space
            res = self.binop_na(I, op, _arr(l), _arr(r))
            for idx in _np.ndindex(*res.a.shape):
                res.a[idx] = PA.ired(to_rat(res.a[idx]))
            return TensorV(res, sp)
        if isinstance(l, CompV) and isinstance(r, CompV) and op is ast.Sub:
            return CompV('(%s-%s)' % (l.name, r.name), l.space)
        if isinstance(l, PV) and isinstance(r, PV) and op is ast.Sub:
            return PV([interp.binop(op, a, b)
                       for a, b in zip(l.parts, r.parts)], l.space)
        if op is ast.Pow and is_scalar(l) and is_scalar(r):
            e = to_rat(r)
            if e.is_const() and e.constant().denominator != 1:
                return PA.pow_q(to_rat(l), e.constant(), self.signs)
        if op is ast.Mult and is_scalar(l) and is_scalar(r):
            return PA.ired(to_rat(l) * to_rat(r))
        return NAHooks.on_binop(self, interp, op, l, r)

    def on_decide(self, interp, cond, node):
        # signs of symbolic expressions: decided at positive witness points
        # (all symbols of this rule set are generic positive reals or
        # generic reals; the compared expressions are sums of squares)
        if cond.rat is not None and cond.key.split(':')[0] in (
                'Lt', 'LtE', 'Gt', 'GtE', 'eq0'):
            vals = []
            for seed in (1, 2, 3):
                vals.append(PA.num_eval(cond.rat, witness_env(seed)))
            k = cond.key.split(':')[0]
            res = [{'Lt': v < 0, 'LtE': v <= 0, 'Gt': v > 0, 'GtE': v >= 0,
                    'eq0': abs(v) < 1e-12}[k] for v in vals]
            if len(set(res)) != 1:
                raise Undecided('sign of %r depends on the point'
                                % (cond.rat,))
            return res[0]
        return NotImplemented


def witness_env(seed):
    class Env(dict):
        def __missing__(self, k):
            h = zlib.crc32(('%s/%d' % (k, seed)).encode()) % 9973
            v = 0.25 + h / 9973.0
            self[k] = v
            return v

        def __contains__(self, k):
            return True
    return Env()


def _arr(v):
    return v.data if isinstance(v, TensorV) else v


class WI(NAInterp):
    def equal(self, l, r, node):
        if l is INF or r is INF:
            return l is r
        return NAInterp.equal(self, l, r, node)

    def cmp1(self, op, l, r, node):
        if (l is INF or r is INF) and isinstance(
                op, (ast.Lt, ast.LtE, ast.Gt, ast.GtE)):
            if l is INF:
                return isinstance(op, (ast.Gt, ast.GtE))
            return isinstance(op, (ast.Lt, ast.LtE))
        return NAInterp.cmp1(self, op, l, r, node)


# --------------------------------------------------------------------------
FIELD = Rec('field', element=Builtin('field.element', lambda v: v))


def tspace(dt):
    return Rec('tspace', field=FIELD, dtype=DT(dt))


def make_data(name, layout, field):
    """Symbolic data array for the layout ('1d', '2dC', '2dF')."""
    shape = {'1d': (3,), '2dC': (2, 2), '2dF': (2, 2)}[layout]
    a = _np.empty(shape, dtype=object, order='F' if layout == '2dF'
                  else 'C')
    for idx in _np.ndindex(*shape):
        s = ''.join(str(i) for i in idx)
        v = Rat.var(name + s)
        if field == 'C':
            v = v + IU * Rat.var(name + 'i' + s)
        a[idx] = v
    return NA(a, 'complex128' if field == 'C' else 'float64')


def make_weights(layout):
    shape = {'1d': (3,), '2dC': (2, 2), '2dF': (2, 2)}[layout]
    a = _np.empty(shape, dtype=object, order='F' if layout == '2dF'
                  else 'C')
    names = []
    for idx in _np.ndindex(*shape):
        n = 'w' + ''.join(str(i) for i in idx)
        names.append(n)
        a[idx] = Rat.var(n)
    return NA(a, 'float64'), names


EXPONENTS = [Fr(2), Fr(1), INF, Fr(3), Fr(3, 2)]


def pname(p):
    return 'inf' if p is INF else str(p)


def doc_norm(entries, weights, p, signs, const=None):
    """Documented weighted p-norm of the entry list."""
    ab = [PA.abs_nf(PA.ired(z), signs) for z in entries]
    if p is INF:
        if const is not None:
            return const * max_nf(ab, signs)
        return max_nf([w * a for w, a in zip(weights, ab)], signs)
    tot = Rat.const(0)
    for i, z in enumerate(entries):
        w = const if const is not None else weights[i]
        if p == 2:
            term = PA.ired(z * PA.conj(z))
        else:
            term = PA.pow_q(ab[i], p, signs)
        tot = tot + w * term
    return PA.pow_q(tot, 1 / p, signs)


def doc_inner(xe, ye, weights, const=None):
    tot = Rat.const(0)
    for i, (a, b) in enumerate(zip(xe, ye)):
        w = const if const is not None else weights[i]
        tot = tot + w * PA.ired(a * PA.conj(b))
    return PA.ired(tot)


def tensor_config(model, kind, p, layout, field, blas=False, big=False,
                  wlayout=None):
    """Build interpreter, weighting instance and elements."""
    wnames = []
    pos = {'c', 's'}
    if kind == 'array':
        warr, wnames = make_weights(wlayout or layout)
        pos |= set(wnames)
    signs = PA.Signs(pos)
    H = WH(signs, blas)
    I = WI(model, {}, H)
    cls = {'const': 'NumpyTensorSpaceConstWeighting',
           'array': 'NumpyTensorSpaceArrayWeighting'}[kind]
    pv = INF if p is INF else Rat.const(p)
    if kind == 'const':
        W = I.instantiate(model.get(cls), [Rat.var('c')], {'exponent': pv})
        weights = None
    else:
        W = I.instantiate(model.get(cls), [warr], {'exponent': pv})
        weights = warr
    sp = tspace('complex128' if field == 'C' else 'float64')
    x = TensorV(make_data('x', layout, field), sp, big)
    y = TensorV(make_data('y', layout, field), sp, big)
    z = TensorV(make_data('z', layout, field), sp, big)
    return I, H, W, x, y, z, weights, signs


def ents(t):
    return [to_rat(v) for v in t.data.a.ravel()]


def wents(w):
    return None if w is None else [to_rat(v) for v in w.a.ravel()]


def call(I, obj, meth, *args):
    return I.call(I.getattr_value(obj, meth), list(args), {})


WIT = [witness_env(11), witness_env(12)]


def check(ctx):
    rep = Report(
        'C02', ctx, 'other',
        'The inner / norm / dist methods of the tensor-space and '
        'product-space weighting classes, the base-class defaults, the '
        'helper pipelines (_inner_default, _norm_default, _pnorm_default, '
        '_pnorm_diagweight) and DiscretizedSpace._inner/_norm/_dist with '
        'apply_on_boundary and _scaling_func_list are evaluated by symbolic '
        'interpretation on small arrays with symbolic real and complex '
        'entries, symbolic positive weights and boundary fractions, for the '
        'exponents 2, 1, inf, 3 and 3/2, C- and F-ordered data, the BLAS / '
        'tensordot size arms.  R1: the computed value equals the documented '
        'closed form as an identity (equality of non-negative expressions '
        'via powers and the rules root(A,b)^b = A, |x|^2 = x^2, I^2 = -1).  '
        'R2: the identities among the axioms hold on the computed '
        'expressions (conjugate symmetry, linearity in the first argument, '
        'absolute homogeneity, dist = norm of the difference, symmetry, '
        'norm^2 = inner for p = 2).  R3: discretized spaces: the boundary '
        'cells enter with their fraction, corner cells with the product; '
        'boundary_cell_fractions sums to the extent of the domain so that '
        'the constant one has squared norm = volume.  R4: default weighting '
        'of uniform_discr_frompartition.  R5: forwarding of the space-level '
        '_inner/_norm/_dist.  R6: non-positive constants and exponents are '
        'rejected; inner is refused for p != 2.',
        ['CPython ast', 'NumPy shape semantics on object arrays (ravel '
         'order, broadcasting, reductions)', 'np.linalg.norm(ord=p) = '
         '(sum |a|^p)^(1/p), nrm2 = 2-norm, dot / vdot / tensordot '
         'definitions', 'positivity of weights and boundary fractions'],
        ['positivity, Cauchy-Schwarz and the triangle inequality for '
         'concrete numbers (consequences of the verified closed form with '
         'positive weights)', 'BLAS / NumPy floating point agreement',
         'custom (user supplied) inner / norm / dist callables',
         'MatrixWeighting'])
    model = Model(ctx)
    for nm in ('NumpyTensorSpaceConstWeighting',
               'NumpyTensorSpaceArrayWeighting', 'ProductSpaceConstWeighting',
               'ProductSpaceArrayWeighting', 'Weighting'):
        if model.get(nm) is None:
            raise AnalysisError('anchor vanished: %s' % nm)
    thorough = ctx.tier == 'thorough'
    tensor_rules(rep, model, thorough)
    from . import c02b
    c02b.pspace_rules(rep, model)
    c02b.discr_rules(rep, model, thorough)
    c02b.forwarding_rules(rep, model)
    return rep


def guarded(rep, rule, cons, fn, file=NPY):
    try:
        msg = fn()
    except PyRaise as e:
        rep.violation(rule, cons, 'raises %s at `%s`' % (
            e.name, ast.unparse(e.node)[:80] if e.node is not None else '?'),
            file, getattr(e.node, 'lineno', None))
        return
    except Undecided as e:
        rep.undecided(rule, cons, str(e), file)
        return
    if msg:
        rep.violation(rule, cons, msg, file)
    else:
        rep.holds(rule, cons)


def tensor_rules(rep, model, thorough):
    n = 0
    layouts = ['1d', '2dC', '2dF']
    for kind in ('const', 'array'):
        for p in EXPONENTS:
            for field in ('R', 'C'):
                for layout in layouts:
                    variants = [(False, False)]
                    if kind == 'const' and p == 2:
                        variants.append((True, False))     # BLAS nrm2
                    if p == 2 and field == 'R':
                        variants.append((False, True))     # tensordot arm
                    if p == 2:
                        # beyond the size thresholds with arrays the BLAS
                        # guard admits
                        variants.append((True, True))
                        if field == 'C':
                            variants.append((False, True))
                    for blas, big in variants:
                        tag = '%s[p=%s,%s,%s%s%s]' % (
                            kind, pname(p), field, layout,
                            ',blas' if blas else '', ',big' if big else '')
                        n += _tensor_case(rep, model, kind, p, layout,
                                          field, blas, big, tag)
    # array weighting stored in the other memory order than the data
    for p in (Fr(2), Fr(3), INF):
        for lay, wl in (('2dF', '2dC'), ('2dC', '2dF')):
            tag = 'array[p=%s,R,%s,weights %s]' % (pname(p), lay, wl)
            n += _tensor_case(rep, model, 'array', p, lay, 'R', False,
                              False, tag, wlayout=wl)
    rep.floor('R1', 'tensor-space weighting evaluations', n, 150)
    # R6 rejections
    for cls in ('NumpyTensorSpaceConstWeighting',
                'ProductSpaceConstWeighting'):
        for bad in (0, -1):
            def f(cls=cls, bad=bad):
                I = WI(model, {}, WH(PA.Signs()))
                try:
                    I.instantiate(model.get(cls), [bad], {})
                except PyRaise as e:
                    return None if e.name == 'ValueError' else \
                        'raises %s' % e.name
                return 'constant %r accepted' % bad
            guarded(rep, 'R6', '%s(const=%r)' % (cls, bad), f, WGT)
    for cls, arg in (('NumpyTensorSpaceConstWeighting', Rat.var('c')),
                     ('ProductSpaceConstWeighting', Rat.var('c'))):
        for bad in (0, -2):
            def f(cls=cls, bad=bad, arg=arg):
                I = WI(model, {}, WH(PA.Signs({'c'})))
                try:
                    I.instantiate(model.get(cls), [arg], {'exponent': bad})
                except PyRaise as e:
                    return None if e.name == 'ValueError' else \
                        'raises %s' % e.name
                return 'exponent %r accepted' % bad
            guarded(rep, 'R6', '%s(exponent=%r)' % (cls, bad), f, WGT)


def _tensor_case(rep, model, kind, p, layout, field, blas, big, tag,
                 wlayout=None):
    n = 0
    cfg = lambda: tensor_config(model, kind, p, layout, field, blas, big,
                                wlayout)
    c = Rat.var('c')

    # ---- norm ---------------------------------------------------------------------
    def norm():
        I, H, W, x, y, z, w, signs = cfg()
        got = scalar(call(I, W, 'norm', x))
        want = doc_norm(ents(x), wents(w), p, signs,
                        c if kind == 'const' else None)
        if not PA.equal_pos(got, want, WIT):
            return 'norm computes %r, documented %r' % (got, want)
        # absolute homogeneity
        s = Rat.var('t')            # a generic real scalar (sign unknown)
        sx = H.on_binop(I, ast.Mult, x, s)
        got_s = scalar(call(I, W, 'norm', sx))
        if not PA.equal_pos(got_s, PA.abs_nf(s, signs) * got, WIT):
            return 'norm(t*x) = %r is not |t| * norm(x)' % (got_s,)
    guarded(rep, 'R1', 'norm:' + tag, norm)
    n += 1

    # ---- dist ---------------------------------------------------------------------
    def dist():
        I, H, W, x, y, z, w, signs = cfg()
        got = scalar(call(I, W, 'dist', x, y))
        d = [a - b for a, b in zip(ents(x), ents(y))]
        want = doc_norm(d, wents(w), p, signs,
                        c if kind == 'const' else None)
        if not PA.equal_pos(got, want, WIT):
            return 'dist computes %r, documented %r' % (got, want)
        back = scalar(call(I, W, 'dist', y, x))
        if not PA.equal_pos(got, back, WIT):
            return 'dist(x, y) = %r differs from dist(y, x) = %r' % (
                got, back)
        nd = scalar(call(I, W, 'norm', H.on_binop(I, ast.Sub, x, y)))
        if not PA.equal_pos(got, nd, WIT):
            return 'dist(x, y) = %r differs from norm(x - y) = %r' % (
                got, nd)
    guarded(rep, 'R1', 'dist:' + tag, dist)
    n += 1

    # ---- inner ---------------------------------------------------------------------
    def inner():
        I, H, W, x, y, z, w, signs = cfg()
        if p != 2:
            try:
                call(I, W, 'inner', x, y)
            except PyRaise as e:
                return None if e.name == 'NotImplementedError' else \
                    'inner raises %s for exponent %s' % (e.name, pname(p))
            return 'inner is defined for exponent %s' % pname(p)
        got = PA.ired(scalar(call(I, W, 'inner', x, y)))
        want = doc_inner(ents(x), ents(y), wents(w),
                         c if kind == 'const' else None)
        if not PA.equal_exact(got, want, WIT):
            return 'inner computes %r, documented %r' % (got, want)
        back = PA.ired(scalar(call(I, W, 'inner', y, x)))
        if not PA.equal_exact(got, PA.conj(back), WIT):
            return 'inner(x, y) is not the conjugate of inner(y, x)'
        # linearity in the first argument
        a = Rat.var('a') + (IU * Rat.var('ai') if field == 'C' else 0)
        lin = H.on_binop(I, ast.Add, H.on_binop(I, ast.Mult, x, a), z)
        g2 = PA.ired(scalar(call(I, W, 'inner', lin, y)))
        gz = PA.ired(scalar(call(I, W, 'inner', z, y)))
        if not PA.equal_exact(g2, (a * got + gz), WIT):
            return 'inner(a*x + z, y) is not a*inner(x, y) + inner(z, y)'
        nx = scalar(call(I, W, 'norm', x))
        ixx = PA.ired(scalar(call(I, W, 'inner', x, x)))
        if not PA.equal_exact(nx * nx, ixx, WIT):
            return 'norm(x)^2 = %r differs from inner(x, x) = %r' % (
                nx * nx, ixx)
    guarded(rep, 'R2' if p == 2 else 'R6', 'inner:' + tag, inner)
    n += 1
    return n
