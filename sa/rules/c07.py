"""C07 -- a proximal operator returns the minimiser of f(z) + ||z-x||^2 /
(2 sigma).  See DESIGN.md section C07 (partial)."""
from __future__ import annotations

import ast

from ..core import Report, Undecided, AnalysisError
from ..srcmodel import Model, return_exprs
from ..forks import explore
from ..ratfun import Rat
from ..symex import PyRaise, Func, to_rat, OpV
from ..opalg import apply
from ..quadmodel import Quad, OFun1, coef, vec, W, T
from ._funcs import instances, evaluate, equal, Ctx, FUNF, DEFF, PROXF
from .c09 import _loc

# factory -> family it denotes (R3); a functional bound to a *different
# known* family is a violation
BIND = {
    ('LpNorm', '1'): 'proximal_l1', ('LpNorm', '2'): 'proximal_l2',
    ('LpNorm', 'np.inf'): 'proximal_linfty',
    ('GroupL1Norm', '1'): 'proximal_l1',
    ('GroupL1Norm', '2'): 'proximal_l1_l2',
    ('IndicatorGroupL1UnitBall', 'np.inf'): 'proximal_convex_conj_l1',
    ('IndicatorGroupL1UnitBall', '2'): 'proximal_convex_conj_l1_l2',
    ('IndicatorLpUnitBall', 'np.inf'): 'proximal_convex_conj_l1',
    ('IndicatorLpUnitBall', '2'): 'proximal_convex_conj_l2',
    ('IndicatorLpUnitBall', '1'): 'proximal_convex_conj_linfty',
    ('L2NormSquared', None): 'proximal_l2_squared',
    ('ConstantFunctional', None): 'proximal_const_func',
    ('IndicatorBox', None): 'proximal_box_constraint',
    ('Huber', None): 'proximal_huber',
    ('KullbackLeibler', None):
        'proximal_convex_conj(proximal_convex_conj_kl)',
    ('KullbackLeiblerConvexConj', None): 'proximal_convex_conj_kl',
    ('KullbackLeiblerCrossEntropy', None):
        'proximal_convex_conj(proximal_convex_conj_kl_cross_entropy)',
    ('KullbackLeiblerCrossEntropyConvexConj', None):
        'proximal_convex_conj_kl_cross_entropy',
}


def check(ctx):
    rep = Report(
        'C07', ctx, 'other',
        'R1: the proximal calculus rules (left/right scaling, translation, '
        'quadratic perturbation, scalar sum, Bregman distance, default '
        'conjugate via Moreau, composition with a scaled unitary operator, '
        'argument scaling) and expressions built from them are evaluated '
        'by the symbolic interpreter on the weighted 1-d quadratic model; '
        'the resulting map must be the exact proximal (argmin F(z) + '
        'w (z-t)^2 / (2 sigma)) of the transformed quadratic, identically '
        'in a, b, sigma, w and the rule parameters.  R2: the affine '
        'proximals of lam*||x-g||^2 and its conjugate satisfy the same.  '
        'R3: each functional is bound to the proximal factory of its own '
        'family (frozen table).  R4: every attribute read by a proximal '
        '_call is defined (E12).  R5: every value parameter of the '
        'functional reaches its proximal.  R6: concrete proximals at '
        'designated points satisfy the first-order optimality condition '
        '(symbolic differentiation of the functional\'s own value, '
        'sub-gradient intervals at kinks, normal cones of constraint '
        'sets).  R6d: f(p) is finite and t -> f(p + t d) + ||p + t d - '
        'x||^2 / (2 sigma) has a non-negative one-sided slope at t = 0+ '
        'along every ray d of a finite family (+-e_j, +-e_j +-e_k, +-(x - '
        'p)), the slope obtained by jet expansion of the interpreted '
        '_call; 2x2 SVD, sort, cumsum, einsum modelled exactly.  R7: the '
        'in-place call prox(x, out=x) returns the same point as the '
        'out-of-place call.',
        ['CPython ast', 'closed-form proximal of a convex quadratic on the '
         'weighted line', 'operator arithmetic means what the table says '
         '(C04)', 'NumPy primitives mean what the array model says',
         'convexity of the functionals (a non-descending ray family is '
         'necessary for optimality; sufficiency is not claimed)'],
        ['optimality at points other than the designated ones and along '
         'rays outside the finite family', 'proximals through the Lambert '
         'W function', 'SVD beyond stacks of real 2x2 matrices',
         'weightings other than the symbolic / numeric ones instantiated'])
    model = Model(ctx)
    n = 0
    for name, (builder, aspects) in instances().items():
        rel, line = _loc(model, name)
        for asp in ('p', 'P'):
            if asp not in aspects:
                continue
            n += 1
            tag = '%s.proximal' % name
            cons = name.split('[')[0] + '.proximal'
            try:
                for r in evaluate(model, builder, asp):
                    if equal(r['got'], r['want']):
                        rep.holds('R1', tag, 'prox %r' % (r['want'],))
                    else:
                        rep.violation(
                            'R1', cons,
                            '%s: %sproximal(sigma) maps t to %r, the '
                            'minimiser of value + w (z - t)^2 / (2 sigma) '
                            'is %r' % (tag, 'value is %r; ' % (r['den'],)
                                       if 'den' in r else '', r['got'],
                                       r['want']), rel, line)
            except Undecided as e:
                rep.undecided('R1', tag, str(e), rel, line)
            except PyRaise as e:
                rep.violation('R1', cons, '%s: raises %s' % (tag, e.name),
                              rel, line)
    rep.floor('R1', 'proximal instances', n, 14)
    _factories(rep, model)
    _affine(rep, model)
    _binding(rep, model)
    _attrs(rep, model)
    _liveness(rep, model)
    from . import c07b
    c07b.run(rep, model)
    # R7: the minimiser is returned whichever way the proximal is called --
    # also with out aliased to the input (evaluated aliased calls, shared
    # with C10-R3 / C11-R5)
    from . import c10b
    c10b.run(rep, model, rule='R7', kinds=('proximal',), floor=60)
    return rep


def _factories(rep, model):
    """Direct tests of the calculus factories."""
    s, a, mu = Rat.var('s'), Rat.var('q'), Rat.var('mu')
    sig = Rat.var('sigma')

    def arg_scaling(c):
        f = c.f()
        fac = c.I.call_func(_fn(c, 'proximal_arg_scaling'),
                            [c.I.getattr_value(f, 'proximal'), s], {})
        q = Quad(f.quad.a * s * s, f.quad.b * s, f.quad.c)
        return fac, q

    def quad_pert(c):
        f = c.f()
        u = c.v('u')
        fac = c.I.call_func(_fn(c, 'proximal_quadratic_perturbation'),
                            [c.I.getattr_value(f, 'proximal')],
                            {'a': a, 'u': u})
        q = Quad(f.quad.a + W * a * 2, f.quad.b + W * coef(u), f.quad.c)
        return fac, q

    def translation(c):
        f = c.f()
        y = c.v('y')
        fac = c.I.call_func(_fn(c, 'proximal_translation'),
                            [c.I.getattr_value(f, 'proximal'), y], {})
        yy = coef(y)
        q = Quad(f.quad.a, f.quad.b - f.quad.a * yy,
                 f.quad.a * yy * yy / 2 - f.quad.b * yy + f.quad.c)
        return fac, q

    def composition(c):
        f = c.f()
        ell = Rat.var('l')
        L = OpV(OFun1(lambda t: ell * t, True, 'L'), c.X, c.X, True)
        # L L^* = mu I  in 1-d: l^2 = mu
        fac = c.I.call_func(_fn(c, 'proximal_composition'),
                            [c.I.getattr_value(f, 'proximal'), L, ell * ell],
                            {})
        q = Quad(f.quad.a * ell * ell, f.quad.b * ell, f.quad.c)
        return fac, q

    for name, mk in (('proximal_arg_scaling', arg_scaling),
                     ('proximal_quadratic_perturbation', quad_pert),
                     ('proximal_translation', translation),
                     ('proximal_composition', composition)):
        fn = model.ctx.func(PROXF, name)

        def once(assume, mk=mk):
            c = Ctx(model, assume)
            fac, q = mk(c)
            P = c.I.call(fac, [sig], {})
            got = coef(apply(c.I, P, vec(T, c.X)))
            return got, q.prox(sig, T)
        try:
            for a_, (got, want) in explore(once, limit=30):
                if equal(got, want):
                    rep.holds('R1', name, 'prox of the transformed '
                              'quadratic: %r' % (want,))
                else:
                    rep.violation('R1', name, 'maps t to %r, the proximal of'
                                  ' the transformed functional is %r'
                                  % (got, want), PROXF, fn.lineno)
        except Undecided as e:
            rep.undecided('R1', name, str(e), PROXF, fn.lineno)
        except PyRaise as e:
            rep.violation('R1', name, 'raises %s' % e.name, PROXF, fn.lineno)


def _fn(c, name):
    fn = c.model.ctx.func(PROXF, name)
    return Func(fn, c.I.env_of(PROXF), None)


def _affine(rep, model):
    lam, sig = Rat.var('lam'), Rat.var('sigma')
    for name, conj in (('proximal_l2_squared', False),
                       ('proximal_convex_conj_l2_squared', True)):
        fn = model.ctx.func(PROXF, name)
        for with_g in (False, True):
            tag = '%s[g=%s]' % (name, with_g)

            def once(assume):
                c = Ctx(model, assume)
                g = c.v('g') if with_g else None
                cls = c.I.call_func(_fn(c, name), [c.X],
                                    {'lam': lam, 'g': g})
                P = c.I.call(cls, [sig], {})
                t0 = vec(T, c.X)
                got_oop = coef(apply(c.I, P, t0))
                gg = coef(g) if with_g else Rat.const(0)
                # F(t) = lam * w * (t - g)^2
                q = Quad(W * lam * 2, -W * lam * gg * 2, W * lam * gg * gg)
                if conj:
                    q = q.conj()
                return got_oop, q.prox(sig, T)
            try:
                for a_, (got, want) in explore(once, limit=30):
                    if equal(got, want):
                        rep.holds('R2', tag, 'affine proximal %r' % (want,))
                    else:
                        rep.violation(
                            'R2', name, '%s: maps t to %r; first-order '
                            'optimality of lam*||z-g||^2%s + ||z-t||^2/'
                            '(2 sigma) gives %r' % (tag, got, ' (conjugate)'
                                                    if conj else '', want),
                            PROXF, fn.lineno)
            except Undecided as e:
                rep.undecided('R2', tag, str(e), PROXF, fn.lineno)
            except PyRaise as e:
                rep.violation('R2', name, '%s: raises %s' % (tag, e.name),
                              PROXF, fn.lineno)


def _binding(rep, model):
    known = {v.split('(')[0] for v in BIND.values()} | {
        'proximal_convex_conj_kl', 'proximal_convex_conj_kl_cross_entropy',
        'proximal_convex_conj_l2_squared', 'proximal_convex_conj'}
    n = 0
    for (cname, arm), want in sorted(BIND.items(), key=str):
        ci = model.classes.get(cname)
        if ci is None:
            raise AnalysisError('anchor vanished: class %s' % cname)
        prox = ci.methods.get('proximal')
        if prox is None:
            raise AnalysisError('anchor vanished: %s.proximal' % cname)
        tag = '%s.proximal%s' % (cname, '[exponent=%s]' % arm if arm else '')
        rets = []
        if arm is None:
            rets = [r.value for r in return_exprs(prox)]
        else:
            for s in ast.walk(prox):
                if isinstance(s, ast.If) and isinstance(s.test,
                                                        ast.Compare) and \
                        ast.unparse(s.test.left).endswith('exponent') and \
                        ast.unparse(s.test.comparators[0]) == arm:
                    rets = [b.value for b in s.body
                            if isinstance(b, ast.Return)]
        def factory(call):
            got = ast.unparse(call.func)
            if got == 'proximal_convex_conj' and call.args and isinstance(
                    call.args[0], ast.Call):
                got = 'proximal_convex_conj(%s)' % ast.unparse(
                    call.args[0].func)
            return got
        rets = [r for r in rets if isinstance(r, ast.Call)]
        if len(rets) > 1:
            # guarded special arms next to the general one: the table
            # constrains the general arm; what a special arm returns for
            # its parameter values is decided by the evaluated tier (R6 /
            # R6d instances with those values)
            main = [r for r in rets if factory(r) == want]
            rets = main[:1] if main else rets[-1:]
        if len(rets) != 1:
            rep.undecided('R3', tag, 'no returned factory call',
                          ci.rel, prox.lineno)
            continue
        n += 1
        call = rets[0]
        got = factory(call)
        if got == want:
            # space forwarded
            args = {k.arg: ast.unparse(k.value) for k in call.keywords}
            rep.holds('R3', tag, 'bound to %s' % want)
        elif got.split('(')[0] in known:
            rep.violation('R3', cname + '.proximal', '%s is bound to %s, the'
                          ' proximal of a different functional; expected %s'
                          % (tag, got, want), ci.rel, call.lineno)
        else:
            rep.undecided('R3', tag, 'bound to the unknown factory %s' % got,
                          ci.rel, call.lineno)
    rep.floor('R3', 'functional -> factory bindings', n, 16)


def _attrs(rep, model):
    from ..selfattr import undefined_reads
    from .c03 import operator_classes
    n = 0
    for ci, fn in operator_classes(model):
        if ci.rel not in (PROXF, DEFF) or not ci.encl:
            continue
        r = undefined_reads(model, ci, fn)
        if r is None:
            continue
        n += 1
        cons = '%s._call' % ci.qual
        if r:
            rep.violation('R4', cons, '`self.%s` is read but never defined '
                          'on the proximal operator class: the proximal '
                          'raises AttributeError' % r[0][1], ci.rel, r[0][0])
        else:
            rep.holds('R4', cons, 'attributes resolve')
    rep.floor('R4', 'proximal closure classes', n, 14)


# --------------------------------------------------------------------------
# R5: parameter liveness.  A parameter of a functional that its value
# (`_call`) depends on must also reach its proximal -- the minimiser of
# F + |.|^2/(2 sigma) cannot be independent of a parameter that changes F,
# unless the parameter is an additive constant or a membership tolerance
# (named exceptions).
LIVENESS_EXCEPTIONS = {
    ('ConstantFunctional', 'constant'): 'additive constant: the minimiser '
                                        'does not depend on it',
    ('IndicatorZero', 'constant'): 'additive constant',
    ('IndicatorSimplex', 'sum_rtol'): 'tolerance of the membership test',
    ('IndicatorSumConstraint', 'sum_rtol'): 'tolerance of the membership '
                                            'test',
    ('IndicatorBox', 'proximal'): 'not a parameter (method reference)',
}


def _self_reads(node, names=('self', 'functional', 'func')):
    """Attributes of self that are read *and used*: a read whose only use is
    the initialisation of a local variable that is never loaded afterwards
    (dead store) does not count."""
    loads = {}
    for n in ast.walk(node):
        if isinstance(n, ast.Name) and isinstance(n.ctx, ast.Load):
            loads[n.id] = loads.get(n.id, 0) + 1
    dead = set()
    for n in ast.walk(node):
        if isinstance(n, ast.Assign) and len(n.targets) == 1 and isinstance(
                n.targets[0], ast.Name) and isinstance(
                    n.value, ast.Attribute) and isinstance(
                        n.value.value, ast.Name) and \
                n.value.value.id in names and \
                loads.get(n.targets[0].id, 0) == 0:
            dead.add(id(n.value))
    out = set()
    for n in ast.walk(node):
        if isinstance(n, ast.Attribute) and isinstance(n.value, ast.Name) \
                and n.value.id in names and id(n) not in dead:
            out.add(n.attr)
    return out


def _attr_params(model, ci):
    """attribute (unmangled) -> set of __init__ parameters it is computed
    from (through local variables), for the __init__ that ci uses."""
    dc, init = model.lookup(ci, '__init__')
    if not isinstance(init, ast.FunctionDef):
        return {}, set()
    params = {a.arg for a in init.args.args[1:] + init.args.kwonlyargs}
    if init.args.kwarg:
        params.add(init.args.kwarg.arg)
    local = {p: {p} for p in params}
    out = {}

    def deps(expr):
        d = set()
        for n in ast.walk(expr):
            if isinstance(n, ast.Name) and n.id in local:
                d |= local[n.id]
            if isinstance(n, ast.Attribute) and isinstance(
                    n.value, ast.Name) and n.value.id == 'self':
                a = n.attr.split('__')[-1] if n.attr.startswith('__') \
                    else n.attr
                d |= out.get(a, set())
        return d
    for st in ast.walk(init):
        if isinstance(st, ast.Assign):
            d = deps(st.value)
            for t in st.targets:
                if isinstance(t, ast.Name):
                    local[t.id] = local.get(t.id, set()) | d
                elif isinstance(t, ast.Attribute) and isinstance(
                        t.value, ast.Name) and t.value.id == 'self':
                    a = t.attr.split('__')[-1] if t.attr.startswith('__') \
                        else t.attr
                    out[a] = out.get(a, set()) | d
    return out, params


def _liveness(rep, model):
    n = 0
    for ci in sorted(model.classes.values(), key=lambda c: c.name):
        if ci.rel != DEFF or not model.is_subclass(ci, 'Functional'):
            continue
        call = ci.methods.get('_call')
        prox = ci.methods.get('proximal')
        if call is None or prox is None:
            continue
        amap, params = _attr_params(model, ci)
        if not amap:
            continue
        n += 1

        def norm(a):
            return a.split('__')[-1] if a.startswith('__') else a

        def closure(node):
            reads = set()
            todo = list(_self_reads(node))
            while todo:
                a = norm(todo.pop())
                if a in reads:
                    continue
                reads.add(a)
                dc, m = model.lookup(ci, a)
                if isinstance(m, ast.FunctionDef) and dc.rel == DEFF and \
                        m is not node and a not in ('proximal', '_call'):
                    todo.extend(_self_reads(m))
            return reads

        def to_params(attrs):
            ps = set()
            for a in attrs:
                ps |= amap.get(a, set())
            return ps - {'space', 'domain', 'range'}
        value_params = to_params(closure(call))
        prox_params = to_params(closure(prox))
        missing = sorted(a for a in value_params - prox_params
                         if (ci.name, a) not in LIVENESS_EXCEPTIONS)
        cons = ci.name + '.proximal'
        if missing:
            rep.violation(
                'R5', cons, 'the value of the functional depends on the '
                'constructor parameter(s) %s which the proximal never '
                'reads: the proximal cannot be the minimiser for every '
                'value of them' % missing, DEFF, prox.lineno)
        else:
            rep.holds('R5', cons, 'reads every value parameter %s'
                      % sorted(value_params))
    rep.floor('R5', 'functionals with _call and proximal', n, 12)
