"""One-sided second-order expansions ("jets") of symbolic expressions along a
ray:  r(t) = a + b t + c t^2 + o(t^2)  for  t -> 0+.

The expressions are rational functions over structured atoms (sqrt / root /
abs / max / min / sgn / exp / log of rational arguments, see ratfun / posalg);
the components a, b, c are expressions free of t.  Kinks are resolved one-
sidedly: |u| with u(0) = 0 continues with the sign of u'(0), a maximum with
ties at t = 0 continues with the larger slope, a square root of an argument
of order t^2 is sqrt(c) t.  Every sign that is needed is asked from a sign
oracle (positive-symbol analysis, then numeric evaluation of constants with
radicals); an unknown sign raises Undecided, never a guess.

This decides one-sided directional derivatives  d/dt f(p + t d) at 0+  of
convex functions at points where they are not differentiable, which is what
the optimality condition of a proximal problem needs (C07-R6d)."""
from __future__ import annotations

from .core import Undecided
from .ratfun import Rat, SAtom
from . import posalg as PA

_Z = Rat.const(0)


class Jet(object):
    """(a, b, c); c may be None (unknown second-order term)."""
    __slots__ = ('a', 'b', 'c')

    def __init__(self, a, b=_Z, c=_Z):
        self.a, self.b, self.c = a, b, c

    def __repr__(self):
        return 'Jet(%r, %r, %r)' % (self.a, self.b, self.c)


def _add(x, y):
    return Jet(x.a + y.a, x.b + y.b,
               None if x.c is None or y.c is None else x.c + y.c)


def _scale(x, k):
    return Jet(x.a * k, x.b * k, None if x.c is None else x.c * k)


def _mul(x, y, J):
    c = x.b * y.b
    for u, v in ((x.a, y.c), (y.a, x.c)):
        if v is None:
            if not J.zero(u):
                c = None
                break
        else:
            c = c + u * v
    return Jet(x.a * y.a, x.a * y.b + x.b * y.a, c)


class Jets(object):
    def __init__(self, t, signs, subs=None):
        """t: the ray parameter (plain variable name); signs: posalg.Signs
        of the positive symbols (t itself must not be in it)."""
        self.t = t
        self.signs = signs
        self.cache = {}

    # ---- oracles --------------------------------------------------------
    def zero(self, r):
        return PA.reduce_full(r).n.is_zero()

    def sign(self, r, what='an expression'):
        sg = PA.full_sign(r, self.signs)
        if sg is None:
            raise Undecided('sign of %s: %r' % (what, PA.reduce_full(r)))
        return sg

    # ---- expansion ------------------------------------------------------
    def jet(self, r):
        r = r if isinstance(r, Rat) else Rat.const(r)
        n = self._poly(r.n)
        if r.d.is_const():
            return _scale(n, Rat.const(1) / Rat.const(r.d.constant()))
        return self._div(n, self._poly(r.d))

    def _poly(self, p):
        tot = Jet(_Z, _Z, _Z)
        for m, c in p.t.items():
            term = Jet(Rat.const(c), _Z, _Z)
            for v, e in m:
                jv = self._var(v)
                for _ in range(e):
                    term = _mul(term, jv, self)
            tot = _add(tot, term)
        return tot

    def _var(self, v):
        if v == self.t:
            return Jet(_Z, Rat.const(1), _Z)
        if not isinstance(v, SAtom):
            return Jet(Rat.var(v), _Z, _Z)
        j = self.cache.get(v)
        if j is None:
            j = self._atom(v)
            self.cache[v] = j
        return j

    def _depends(self, v):
        from .mdiff import _depends
        return _depends(Rat.var(v), self.t)

    def _div(self, x, y):
        # valuation shift for 0 / 0
        for _ in range(2):
            if not self.zero(y.a):
                break
            if not self.zero(x.a):
                raise Undecided('division by an expression vanishing at the '
                                'point: %r' % (y,))
            if x.c is None or y.c is None:
                raise Undecided('0 / 0 with unknown higher-order terms')
            x, y = Jet(x.b, x.c, None), Jet(y.b, y.c, None)
        else:
            if self.zero(y.a):
                raise Undecided('0 / 0 beyond second order')
        ia = Rat.const(1) / y.a
        ib = -y.b * ia * ia
        ic = None if y.c is None else (y.b * y.b * ia - y.c) * ia * ia
        return _mul(x, Jet(ia, ib, ic), self)

    def _atom(self, v):
        k = v[0]
        if not self._depends(v):
            return Jet(Rat.var(v), _Z, _Z)
        if k in ('max', 'min'):
            js = [self.jet(z) for z in v[1]]
            best = js[0]
            for j in js[1:]:
                if self._cmp(j, best) * (1 if k == 'max' else -1) > 0:
                    best = j
            return best
        arg = v[1]
        if not isinstance(arg, Rat):
            raise Undecided('expansion of the atom %s' % k)
        u = self.jet(arg)
        if k == 'abs':
            try:
                s = self._lead_sign(u, '|.| argument')
            except Undecided:
                # a generic (not identically zero) quantity of unknown sign
                if self.zero(u.a):
                    return Jet(_Z, PA.abs_nf(u.b, self.signs), None)
                if self.zero(u.b) and u.c is not None and self.zero(u.c):
                    return Jet(PA.abs_nf(u.a, self.signs), _Z, _Z)
                raise
            return _scale(u, Rat.const(s)) if s else Jet(_Z, _Z, _Z)
        if k in ('sgn', 'sign'):
            return Jet(Rat.const(self._lead_sign(u, 'sign argument')), _Z, _Z)
        if k in ('sqrt', 'root'):
            n = 2 if k == 'sqrt' else v[2]
            sa = self.sign(u.a, 'a radicand')
            if sa < 0:
                raise Undecided('root of a negative quantity')
            if sa > 0:
                r = PA.root(u.a, n, self.signs)
                b = u.b * r / (n * u.a)
                c = None if u.c is None else (
                    u.c * r / (n * u.a) +
                    Rat.const(1 - n) / Rat.const(2 * n * n) * r * u.b * u.b /
                    (u.a * u.a))
                return Jet(r, b, c)
            if not self.zero(u.b):
                raise Undecided('root of a quantity of first order in t '
                                '(infinite one-sided slope)')
            if n != 2:
                raise Undecided('higher root of a vanishing quantity')
            if u.c is None:
                raise Undecided('square root of an unknown second-order term')
            if self.sign(u.c, 'a radicand') < 0:
                raise Undecided('root of a negative quantity')
            return Jet(_Z, PA.root(u.c, 2, self.signs), None)
        if k == 'exp':
            e = PA.exp_nf(u.a, self.signs)
            return Jet(e, u.b * e, None if u.c is None else
                       (u.c + u.b * u.b / 2) * e)
        if k == 'log':
            if self.sign(u.a, 'the argument of log') <= 0:
                raise Undecided('log at a non-positive point')
            return Jet(PA.log_nf(u.a, self.signs), u.b / u.a,
                       None if u.c is None else
                       u.c / u.a - u.b * u.b / (2 * u.a * u.a))
        raise Undecided('expansion of the atom %s' % k)

    def _lead_sign(self, u, what):
        s = self.sign(u.a, what)
        if s:
            return s
        s = self.sign(u.b, what)
        if s:
            return s
        if u.c is None:
            raise Undecided('sign of a quantity vanishing to first order')
        return self.sign(u.c, what)

    def _cmp(self, x, y):
        d = Jet(x.a - y.a, x.b - y.b,
                None if x.c is None or y.c is None else x.c - y.c)
        s = self.sign(d.a, 'a max/min comparison')
        if s:
            return s
        s = self.sign(d.b, 'a max/min comparison')
        if s:
            return s
        if d.c is None:
            return 0
        return self.sign(d.c, 'a max/min comparison')

    def lead_sign(self, r, what='a condition'):
        """Sign of r(t) for small t > 0."""
        return self._lead_sign(self.jet(r), what)
