"""A small exact model of the NumPy layer for formula-level code: scalars are
``Rat`` (trigonometric values are atoms ``cos(x)``, ``sin(x)`` ...), vectors
are ``SArr``, matrices are ``Mat`` (lists of rows).  Used as a hooks mixin
by the geometry / Fourier rule sets."""
from __future__ import annotations

import math
from fractions import Fraction as Fr

from .core import Undecided
from .ratfun import Rat, Poly, SAtom, satom
from .symex import (Hooks, Builtin, Opaque, SArr, NPV, ModuleV, is_scalar,
                    to_rat, PyRaise)


class Mat(object):
    def __init__(self, rows):
        self.rows = [list(r) for r in rows]

    @property
    def shape(self):
        return (len(self.rows), len(self.rows[0]) if self.rows else 0)

    def T(self):
        return Mat([list(c) for c in zip(*self.rows)])

    def __repr__(self):
        return 'Mat(%r)' % (self.rows,)


def R(x):
    return to_rat(x)


def trig(name, x):
    """cos/sin/tan of a Rat; exact values at 0; arctan-atoms reduce."""
    x = R(x)
    if x.is_zero():
        return Rat.const(1) if name == 'cos' else Rat.const(0)
    # cos(-x) = cos(x), sin(-x) = -sin(x): normalise the sign of the
    # argument so that both spellings give one atom
    neg = _leading_negative(x)
    if neg:
        v = trig(name, -x)
        return v if name == 'cos' else -v
    vars_ = list(x.vars())
    if len(vars_) == 1 and isinstance(vars_[0], SAtom) and \
            vars_[0][0] == 'arctan' and x == Rat.var(vars_[0]):
        t = vars_[0][1]
        if name == 'tan':
            return t
        den = sqrt_rat(Rat.const(1) + t * t)
        return t / den if name == 'sin' else Rat.const(1) / den
    return Rat.var(satom(name, x))


def _leading_negative(x):
    # deterministic: sign of the coefficient of the first monomial
    if not x.n.t:
        return False
    m = sorted(x.n.t, key=repr)[0]
    c = x.n.t[m]
    d = x.d.constant() if x.d.is_const() else 1
    return (c / d) < 0 if x.d.is_const() else c < 0


def sqrt_rat(x):
    x = R(x)
    if x.is_const():
        c = x.constant()
        if c < 0:
            raise Undecided('sqrt of a negative number')
        n, d = c.numerator, c.denominator
        rn, rd = math.isqrt(n), math.isqrt(d)
        if rn * rn == n and rd * rd == d:
            return Rat.const(Fr(rn, rd))
    return Rat.var(satom('sqrt', x))


def matmul(a, b):
    if isinstance(a, Mat) and isinstance(b, Mat):
        bt = list(zip(*b.rows))
        return Mat([[_dot(r, c) for c in bt] for r in a.rows])
    if isinstance(a, Mat) and isinstance(b, (SArr, list, tuple)):
        v = b.items if isinstance(b, SArr) else list(b)
        return SArr([_dot(r, v) for r in a.rows])
    if isinstance(a, (SArr, list, tuple)) and isinstance(b, Mat):
        v = a.items if isinstance(a, SArr) else list(a)
        return SArr([_dot(v, c) for c in zip(*b.rows)])
    if isinstance(a, (SArr, list, tuple)) and isinstance(b, (SArr, list,
                                                             tuple)):
        va = a.items if isinstance(a, SArr) else list(a)
        vb = b.items if isinstance(b, SArr) else list(b)
        return _dot(va, vb)
    raise Undecided('matmul of %r, %r' % (a, b))


def _dot(u, v):
    if len(u) != len(v):
        raise Undecided('dot of lengths %d, %d' % (len(u), len(v)))
    tot = Rat.const(0)
    for a, b in zip(u, v):
        tot = tot + R(a) * R(b)
    return tot


def det(m):
    r = m.rows
    n = len(r)
    if n == 1:
        return R(r[0][0])
    if n == 2:
        return R(r[0][0]) * R(r[1][1]) - R(r[0][1]) * R(r[1][0])
    tot = Rat.const(0)
    for j in range(n):
        minor = Mat([row[:j] + row[j + 1:] for row in r[1:]])
        tot = tot + (Rat.const((-1) ** j) * R(r[0][j]) * det(minor))
    return tot


def to_items(v):
    if isinstance(v, SArr):
        return v.items
    if isinstance(v, (list, tuple)):
        return list(v)
    raise Undecided('not a vector: %r' % (v,))


class NumpyHooks(Hooks):
    """np.* over Rat / SArr / Mat."""

    def np_function(self, interp, name):
        I = interp

        def elementwise(f):
            def g(x, *a, **k):
                if isinstance(x, SArr):
                    return SArr([f(v) for v in x.items])
                if isinstance(x, Mat):
                    return Mat([[f(v) for v in r] for r in x.rows])
                if isinstance(x, Opaque):
                    return Opaque('np.%s' % name)
                return f(x)
            return g
        if name in ('cos', 'sin', 'tan'):
            return elementwise(lambda x: trig(name, x))
        if name == 'arctan':
            def at(x):
                x = R(x)
                if x.is_zero():
                    return Rat.const(0)
                if _leading_negative(x):
                    return -Rat.var(satom('arctan', -x))
                return Rat.var(satom('arctan', x))
            return elementwise(at)
        if name == 'arccos':
            return elementwise(lambda x: Rat.var(satom('arccos', R(x))))
        if name == 'sqrt':
            return elementwise(sqrt_rat)
        if name == 'sign':
            return elementwise(lambda x: Rat.var(satom('sign', R(x))))
        if name in ('abs', 'absolute'):
            def ab(x):
                x = R(x)
                if x.is_const():
                    return Rat.const(abs(x.constant()))
                return Rat.var(satom('abs', x))
            return elementwise(ab)
        if name == 'hypot':
            return lambda a, b: sqrt_rat(R(a) * R(a) + R(b) * R(b))
        if name == 'ceil':
            def ceil(x):
                if isinstance(x, Opaque):
                    return x
                x = R(x)
                if x.is_const():
                    return Rat.const(math.ceil(x.constant()))
                return Rat.var(satom('ceil', x))
            return ceil
        if name in ('array', 'asarray'):
            def arr(v, *a, **k):
                return self.to_array(v)
            return arr
        if name == 'eye':
            return lambda n, **k: Mat([[Rat.const(1 if i == j else 0)
                                       for j in range(n)] for i in range(n)])
        if name == 'outer':
            def outer(a, b):
                a, b = to_items(a), to_items(b)
                return Mat([[R(x) * R(y) for y in b] for x in a])
            return outer
        if name == 'cross':
            def cross(a, b):
                a, b = [R(x) for x in to_items(a)], [R(x) for x in
                                                     to_items(b)]
                return SArr([a[1] * b[2] - a[2] * b[1],
                             a[2] * b[0] - a[0] * b[2],
                             a[0] * b[1] - a[1] * b[0]])
            return cross
        if name in ('dot', 'matmul'):
            return matmul
        if name == 'transpose':
            def tr(m, axes=None):
                if isinstance(m, Mat):
                    return m.T() if axes is None or list(axes) == [1, 0] \
                        else m
                return m
            return tr
        if name == 'shape':
            def shp(v):
                if isinstance(v, Mat):
                    return v.shape
                if isinstance(v, (SArr, list, tuple)):
                    return (len(to_items(v)),)
                return ()
            return shp
        if name == 'ndim':
            return lambda v: len(self.np_function(I, 'shape')(v))
        if name == 'broadcast':
            def bc(*a):
                from .symex import Rec
                if all(is_scalar(x) for x in a):
                    return Rec('broadcast', shape=())
                return Rec('broadcast', shape=Opaque('shape'))
            return bc
        return None

    def to_array(self, v):
        if isinstance(v, (list, tuple)):
            if v and all(isinstance(r, (list, tuple, SArr)) for r in v):
                return Mat([to_items(r) for r in v])
            if all(is_scalar(x) for x in v):
                return SArr(list(v))
        return v

    def on_getattr(self, interp, obj, name):
        if obj is NPV:
            if name == 'pi':
                return Rat.var('pi')
            if name == 'linalg':
                return ModuleV('np.linalg')
            f = self.np_function(interp, name)
            if f is not None:
                return Builtin('np.' + name, f)
        if isinstance(obj, ModuleV) and obj.name == 'np.linalg':
            if name == 'norm':
                def norm(v, *a, **k):
                    if isinstance(v, Opaque):
                        return Opaque('norm')
                    items = [R(x) for x in to_items(v)]
                    tot = Rat.const(0)
                    for x in items:
                        tot = tot + x * x
                    return sqrt_rat(tot)
                return Builtin('np.linalg.norm', norm)
        if isinstance(obj, Mat):
            if name == 'T':
                return obj.T()
            if name == 'squeeze':
                return Builtin('squeeze', lambda *a, **k: obj)
            if name == 'shape':
                return obj.shape
            if name == 'dot':
                return Builtin('dot', lambda o: matmul(obj, o))
            if name == 'ndim':
                return 2
        if isinstance(obj, SArr):
            if name == 'shape':
                return (len(obj.items),)
            if name == 'ndim':
                return 1
            if name == 'squeeze':
                return Builtin('squeeze', lambda *a, **k: obj)
            if name == 'dot':
                return Builtin('dot', lambda o: matmul(obj, o))
            if name == 'copy':
                return Builtin('copy', lambda: SArr(list(obj.items)))
        if is_scalar(obj) and name in ('ndim',):
            return 0
        if is_scalar(obj) and name == 'shape':
            return ()
        return NotImplemented

    def on_subscript(self, interp, obj, idx):
        def trivial(i):
            return i is None or (isinstance(i, slice) and i == slice(None)) \
                or i is Ellipsis
        if isinstance(obj, Mat):
            if isinstance(idx, tuple) and all(trivial(i) for i in idx):
                return obj
            if isinstance(idx, int):
                return SArr(obj.rows[idx])
            if isinstance(idx, tuple) and len(idx) == 2 and all(
                    isinstance(i, int) for i in idx):
                return obj.rows[idx[0]][idx[1]]
            if isinstance(idx, tuple) and len(idx) == 2 and trivial(
                    idx[0]) and isinstance(idx[1], int):
                return SArr([r[idx[1]] for r in obj.rows])
            raise Undecided('matrix index %r' % (idx,))
        if is_scalar(obj) and isinstance(idx, tuple) and all(
                trivial(i) for i in idx):
            return obj
        if isinstance(obj, SArr) and isinstance(idx, tuple):
            if all(trivial(i) for i in idx):
                return obj
            nontriv = [i for i in idx if not trivial(i)]
            if len(nontriv) == 1 and isinstance(nontriv[0], int):
                return obj.items[nontriv[0]]
        return NotImplemented

    def on_binop(self, interp, op, l, r):
        import ast as _ast
        if isinstance(l, Mat) or isinstance(r, Mat):
            def f(a, b):
                return interp.binop(op, a, b)
            if isinstance(l, Mat) and isinstance(r, Mat):
                return Mat([[f(a, b) for a, b in zip(ra, rb)]
                            for ra, rb in zip(l.rows, r.rows)])
            if isinstance(l, Mat) and is_scalar(r):
                return Mat([[f(a, r) for a in ra] for ra in l.rows])
            if isinstance(r, Mat) and is_scalar(l):
                return Mat([[f(l, a) for a in ra] for ra in r.rows])
            raise Undecided('matrix arithmetic with %r, %r' % (l, r))
        return NotImplemented
