"""E12 -- attribute definedness on concrete classes: every ``self.X`` read in
a method must be defined somewhere in the class's MRO (assignment to
``self.X`` in any method, class attribute, method, property; private names
mangled per defining class).  ``self`` is the method's own first parameter,
which is what goes wrong in closure classes where an inner ``self`` shadows
the enclosing functional's ``self``."""
from __future__ import annotations

import ast


def mangle(cls, name):
    if name.startswith('__') and not name.endswith('__'):
        return '_' + cls.lstrip('_') + name
    return name


def defined_names(model, ci):
    """(names, fully_resolved)."""
    names = set(dir(object))
    ok = True
    for c in model.mro(ci):
        for st in c.node.body:
            if isinstance(st, ast.FunctionDef):
                names.add(mangle(c.name, st.name))
                selfn = st.args.args[0].arg if st.args.args else None
                for n in ast.walk(st):
                    if isinstance(n, ast.Attribute) and isinstance(
                            n.value, ast.Name) and n.value.id == selfn and \
                            isinstance(n.ctx, (ast.Store, ast.Del)):
                        names.add(mangle(c.name, n.attr))
                    if isinstance(n, ast.Call) and ast.unparse(n.func) == \
                            'setattr' and len(n.args) >= 2 and isinstance(
                                n.args[1], ast.Constant):
                        names.add(n.args[1].value)
            elif isinstance(st, ast.Assign):
                for t in st.targets:
                    for n in ast.walk(t):
                        if isinstance(n, ast.Name):
                            names.add(mangle(c.name, n.id))
            elif isinstance(st, ast.ClassDef):
                names.add(st.name)
        for b in c.bases:
            if b not in model.classes and b not in ('object',):
                ok = False
    # attributes installed dynamically on Operator subclasses by __new__
    if model.is_subclass(ci, 'Operator'):
        names |= {'_call_in_place', '_call_out_of_place', '_call_has_out',
                  '_call_out_optional'}
    return names, ok


def undefined_reads(model, ci, fn):
    """[(lineno, attr)] of ``self.attr`` reads in ``fn`` (a method of ci)
    that no class in the MRO defines."""
    names, ok = defined_names(model, ci)
    if not ok or not fn.args.args:
        return None
    if any(isinstance(d, ast.Name) and d.id in ('staticmethod',
                                                'classmethod')
           for d in fn.decorator_list):
        return []
    selfn = fn.args.args[0].arg
    # the defining class of fn (for mangling)
    owner = ci
    for c in model.mro(ci):
        if fn in c.node.body:
            owner = c
            break
    out = []

    def visit(n):
        for ch in ast.iter_child_nodes(n):
            if isinstance(ch, ast.ClassDef):
                continue          # an inner class rebinds self
            if isinstance(ch, (ast.FunctionDef, ast.Lambda)) and any(
                    a.arg == selfn for a in ch.args.args):
                continue
            if isinstance(ch, ast.Attribute) and isinstance(
                    ch.value, ast.Name) and ch.value.id == selfn and \
                    isinstance(ch.ctx, ast.Load):
                a = mangle(owner.name, ch.attr)
                if a not in names and ch.attr not in (
                        '__class__', '__dict__', '__doc__', '__module__'):
                    out.append((ch.lineno, ch.attr))
            visit(ch)
    visit(fn)
    return out
