"""E7 -- exact formula normal forms.

``Poly``: multivariate polynomial with ``Fraction`` coefficients (variables are
arbitrary hashable names, integer exponents >= 0).  ``Rat``: quotient of two
polynomials; equality by cross-multiplication (exact), hashing by evaluation
at a fixed rational point modulo a prime (consistent with equality), so
``Rat`` objects can be used in sets / dict keys / frozen linear forms.
Reduction modulo relations ``v**k -> poly`` (e.g. ``s**2 -> 1 - c**2``).
"""
from __future__ import annotations

from fractions import Fraction as Fr

_P = (1 << 61) - 1


def _varhash(v):
    # deterministic (not Python's randomised str hash)
    s = repr(v).encode()
    h = 1469598103934665603
    for b in s:
        h = ((h ^ b) * 1099511628211) % (1 << 64)
    return h % (_P - 3) + 2


class SAtom(tuple):
    """Interned structured variable (e.g. ('norm', <frozen form>)): equal
    structures are one object, so hashing/comparison/printing are O(1)."""
    _table = {}

    def __new__(cls, kind, *payload):
        key = (kind,) + payload
        obj = cls._table.get(key)
        if obj is None:
            obj = tuple.__new__(cls, key)
            obj.uid = len(cls._table) + 1
            cls._table[key] = obj
        return obj

    def __hash__(self):
        return hash(('SAtom', self.uid))

    def __eq__(self, other):
        return self is other

    def __ne__(self, other):
        return self is not other

    def __repr__(self):
        return '%s#%d' % (tuple.__getitem__(self, 0), self.uid)


def satom(kind, *payload):
    return SAtom(kind, *payload)


class Poly(object):
    __slots__ = ('t',)

    def __init__(self, terms=None):
        # terms: {mono: Fraction}; mono = tuple(sorted((var, exp)))
        self.t = {m: c for m, c in (terms or {}).items() if c != 0}

    # ---- constructors ---------------------------------------------------
    @staticmethod
    def const(c):
        return Poly({(): Fr(c)})

    @staticmethod
    def var(v):
        return Poly({((v, 1),): Fr(1)})

    @staticmethod
    def coerce(x):
        if isinstance(x, Poly):
            return x
        return Poly.const(x)

    # ---- arithmetic -----------------------------------------------------
    def __add__(a, b):
        b = Poly.coerce(b)
        r = dict(a.t)
        for m, c in b.t.items():
            r[m] = r.get(m, 0) + c
        return Poly(r)
    __radd__ = __add__

    def __neg__(a):
        return Poly({m: -c for m, c in a.t.items()})

    def __sub__(a, b):
        return a + (-Poly.coerce(b))

    def __rsub__(a, b):
        return Poly.coerce(b) - a

    def __mul__(a, b):
        b = Poly.coerce(b)
        r = {}
        for m1, c1 in a.t.items():
            d1 = dict(m1)
            for m2, c2 in b.t.items():
                d = dict(d1)
                for v, e in m2:
                    d[v] = d.get(v, 0) + e
                m = tuple(sorted(d.items(), key=lambda ve: repr(ve[0])))
                r[m] = r.get(m, 0) + c1 * c2
        return Poly(r)
    __rmul__ = __mul__

    def __pow__(a, n):
        if not isinstance(n, int) or n < 0:
            raise ValueError('Poly ** %r' % (n,))
        r = Poly.const(1)
        for _ in range(n):
            r = r * a
        return r

    def __eq__(a, b):
        if not isinstance(b, Poly):
            try:
                b = Poly.coerce(b)
            except Exception:
                return NotImplemented
        return a.t == b.t

    def __ne__(a, b):
        return not a == b

    def __hash__(a):
        return hash(frozenset(a.t.items()))

    def is_zero(a):
        return not a.t

    def is_const(a):
        return all(m == () for m in a.t)

    def constant(a):
        return a.t.get((), Fr(0))

    def vars(a):
        return {v for m in a.t for v, _ in m}

    def degree(a, v):
        return max([dict(m).get(v, 0) for m in a.t] or [0])

    # ---- evaluation / substitution ---------------------------------------
    def subs(a, mapping):
        """Substitute polynomials (or numbers) for variables."""
        r = Poly()
        for m, c in a.t.items():
            term = Poly.const(c)
            for v, e in m:
                if v in mapping:
                    term = term * (Poly.coerce(mapping[v]) ** e)
                else:
                    term = term * Poly({((v, e),): Fr(1)})
            r = r + term
        return r

    def eval(a, env):
        tot = Fr(0)
        for m, c in a.t.items():
            x = c
            for v, e in m:
                x *= Fr(env[v]) ** e
            tot += x
        return tot

    def evalmod(a):
        tot = 0
        for m, c in a.t.items():
            x = (c.numerator % _P) * pow(c.denominator % _P, _P - 2, _P)
            for v, e in m:
                x = x * pow(_varhash(v), e, _P)
            tot = (tot + x) % _P
        return tot

    def diff(a, v):
        r = {}
        for m, c in a.t.items():
            d = dict(m)
            e = d.get(v, 0)
            if e == 0:
                continue
            if e == 1:
                del d[v]
            else:
                d[v] = e - 1
            mm = tuple(sorted(d.items(), key=lambda ve: repr(ve[0])))
            r[mm] = r.get(mm, 0) + c * e
        return Poly(r)

    def reduce(a, rules):
        """Rewrite with rules ``{(var, k): Poly}`` meaning ``var**k -> Poly``
        until no monomial contains ``var**e`` with ``e >= k``."""
        cur = a
        for _ in range(200):
            changed = False
            r = Poly()
            for m, c in cur.t.items():
                d = dict(m)
                hit = None
                for (v, k), rhs in rules.items():
                    if d.get(v, 0) >= k:
                        hit = (v, k, rhs)
                        break
                if hit is None:
                    r = r + Poly({m: c})
                    continue
                v, k, rhs = hit
                d[v] -= k
                if d[v] == 0:
                    del d[v]
                mm = tuple(sorted(d.items(), key=lambda ve: repr(ve[0])))
                r = r + Poly({mm: c}) * rhs
                changed = True
            cur = r
            if not changed:
                return cur
        raise ValueError('reduction did not terminate')

    def __repr__(a):
        if not a.t:
            return '0'
        parts = []
        for m in sorted(a.t, key=repr):
            c = a.t[m]
            mono = '*'.join(
                (_vname(v) if e == 1 else '%s^%d' % (_vname(v), e))
                for v, e in m)
            if not mono:
                parts.append(str(c))
            elif c == 1:
                parts.append(mono)
            elif c == -1:
                parts.append('-' + mono)
            else:
                parts.append('%s*%s' % (c, mono))
        return ' + '.join(parts).replace('+ -', '- ')


def _vname(v):
    if isinstance(v, str):
        return v
    if isinstance(v, tuple) and len(v) == 2 and isinstance(v[0], str):
        return '%s(%s)' % (v[0], _vname(v[1]) if not isinstance(
            v[1], (Poly, Rat)) else repr(v[1]))
    return repr(v)


class Rat(object):
    """Rational function num/den (den != 0)."""
    __slots__ = ('n', 'd', '_h')

    def __init__(self, n, d=None):
        self._h = None
        n = Poly.coerce(n)
        d = Poly.const(1) if d is None else Poly.coerce(d)
        if d.is_zero():
            raise ZeroDivisionError('Rat with zero denominator')
        # cheap normalisation: constant denominators are folded, a common
        # monomial content is not needed for equality (cross-multiplication)
        if d.is_const():
            n = n * Poly.const(1 / d.constant())
            d = Poly.const(1)
        if n.is_zero():
            d = Poly.const(1)
        self.n, self.d = n, d

    @staticmethod
    def coerce(x):
        if isinstance(x, Rat):
            return x
        return Rat(Poly.coerce(x))

    @staticmethod
    def var(v):
        return Rat(Poly.var(v))

    @staticmethod
    def const(c):
        return Rat(Poly.const(c))

    def __add__(a, b):
        b = Rat.coerce(b)
        if a.d == b.d:
            return Rat(a.n + b.n, a.d)
        return Rat(a.n * b.d + b.n * a.d, a.d * b.d)
    __radd__ = __add__

    def __neg__(a):
        return Rat(-a.n, a.d)

    def __sub__(a, b):
        return a + (-Rat.coerce(b))

    def __rsub__(a, b):
        return Rat.coerce(b) - a

    def __mul__(a, b):
        b = Rat.coerce(b)
        # cancel identical factors cheaply
        if a.d == b.n:
            return Rat(a.n, b.d)
        if b.d == a.n:
            return Rat(b.n, a.d)
        return Rat(a.n * b.n, a.d * b.d)
    __rmul__ = __mul__

    def __truediv__(a, b):
        b = Rat.coerce(b)
        if b.n.is_zero():
            raise ZeroDivisionError('division by the zero rational function')
        return a * Rat(b.d, b.n)

    def __rtruediv__(a, b):
        return Rat.coerce(b) / a

    def __pow__(a, n):
        if not isinstance(n, int):
            raise ValueError('Rat ** %r' % (n,))
        if n >= 0:
            return Rat(a.n ** n, a.d ** n)
        return Rat(a.d ** (-n), a.n ** (-n))

    def __eq__(a, b):
        try:
            b = Rat.coerce(b)
        except Exception:
            return NotImplemented
        return (a.n * b.d) == (b.n * a.d)

    def __ne__(a, b):
        return not a == b

    def __hash__(a):
        if a._h is None:
            dn = a.d.evalmod()
            if dn == 0:      # astronomically unlikely; stay consistent
                a._h = 0
            else:
                a._h = (a.n.evalmod() * pow(dn, _P - 2, _P)) % _P
        return a._h

    def is_zero(a):
        return a.n.is_zero()

    def is_const(a):
        if a.n.is_const() and a.d.is_const():
            return True
        return a._ratio() is not None

    def constant(a):
        if a.n.is_const() and a.d.is_const():
            return a.n.constant() / a.d.constant()
        q = a._ratio()
        if q is None:
            raise ValueError('not a constant: %r' % (a,))
        return q

    def _ratio(a):
        """q if the numerator is the constant multiple q of the (non-
        constant) denominator, else None."""
        if not a.n.t:
            return Fr(0)
        if len(a.n.t) != len(a.d.t):
            return None
        m0 = next(iter(a.d.t))
        if m0 not in a.n.t:
            return None
        q = a.n.t[m0] / a.d.t[m0]
        for m, c in a.d.t.items():
            if a.n.t.get(m) != q * c:
                return None
        return q

    def vars(a):
        return a.n.vars() | a.d.vars()

    def subs(a, mapping):
        """mapping: var -> Rat/Poly/number."""
        def sub_poly(p):
            r = Rat.const(0)
            for m, c in p.t.items():
                term = Rat.const(c)
                for v, e in m:
                    if v in mapping:
                        term = term * (Rat.coerce(mapping[v]) ** e)
                    else:
                        term = term * Rat(Poly({((v, e),): Fr(1)}))
                r = r + term
            return r
        return sub_poly(a.n) / sub_poly(a.d)

    def eval(a, env):
        return a.n.eval(env) / a.d.eval(env)

    def diff(a, v):
        return Rat(a.n.diff(v) * a.d - a.n * a.d.diff(v), a.d * a.d)

    def reduce(a, rules):
        return Rat(a.n.reduce(rules), a.d.reduce(rules))

    def __repr__(a):
        if a.d == Poly.const(1):
            return repr(a.n)
        return '(%r)/(%r)' % (a.n, a.d)


ZERO = Rat.const(0)
ONE = Rat.const(1)
