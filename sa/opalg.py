"""Operator-algebra layer on top of the symbolic interpreter: python operator
dispatch between operators, scalars and vectors through the repository's own
dunder methods; ``Operator.__init__`` / ``Functional.__init__`` as interface
primitives; denotation of operator objects by interpreting their ``_call``.
"""
from __future__ import annotations

import ast

from .core import Undecided
from .ratfun import Rat
from . import vs
from .symex import (Interp, Hooks, Inst, OpV, Vec, PVec, SpaceV, FieldV, Func,
                    Bound, Builtin, ClassV, NI, PyRaise, is_scalar, to_rat)

OPFILE = 'odl/operator/operator.py'

DUNDER = {ast.Add: ('__add__', '__radd__'), ast.Sub: ('__sub__', '__rsub__'),
          ast.Mult: ('__mul__', '__rmul__'),
          ast.Div: ('__truediv__', '__rtruediv__'),
          ast.MatMult: ('__matmul__', '__rmatmul__'),
          ast.Pow: ('__pow__', '__rpow__')}


def is_operator(interp, v):
    return isinstance(v, OpV) or (isinstance(v, Inst) and
                                  interp.model.is_subclass(v.ci, 'Operator'))


class OpHooks(Hooks):
    def __init__(self):
        self.inner_ops = {}

    # Operator.__init__ / Functional.__init__ as primitives -------------------
    def on_super(self, interp, selfv, cls, name, args, kwargs, target):
        if name == '__init__' and target is not None:
            c, m = target
            if c.name == 'Operator':
                self.operator_init(interp, selfv, args, kwargs)
                return None
        return NotImplemented

    def operator_init(self, interp, inst, args, kwargs):
        names = ['domain', 'range', 'linear']
        vals = {'linear': False}
        for n, a in zip(names, args):
            vals[n] = a
        vals.update(kwargs)
        for k in ('domain', 'range'):
            if not isinstance(vals.get(k), (SpaceV, FieldV)):
                raise PyRaise('TypeError')
        lin = vals['linear']
        if not isinstance(lin, bool):
            lin = interp.truth_value(lin)
        inst.attrs['_Operator__domain'] = vals['domain']
        inst.attrs['_Operator__range'] = vals['range']
        inst.attrs['_Operator__is_linear'] = bool(lin)
        inst.attrs['_Operator__is_functional'] = isinstance(vals['range'],
                                                            FieldV)

    def on_call(self, interp, f, args, kwargs, node):
        # direct Operator.__init__(self, ...) calls
        if isinstance(f, Bound) and f.func.ci is not None and \
                f.func.ci.name == 'Operator' and f.func.name == '__init__':
            self.operator_init(interp, f.selfv, args, kwargs)
            return None
        if isinstance(f, Func) and f.ci is not None and \
                f.ci.name == 'Operator' and f.name == '__init__' and args \
                and isinstance(args[0], Inst):
            self.operator_init(interp, args[0], args[1:], kwargs)
            return None
        return NotImplemented

    # python's binary operator protocol -----------------------------------------
    def on_binop(self, interp, op, l, r):
        lo, ro = is_operator(interp, l), is_operator(interp, r)
        if not (lo or ro):
            return NotImplemented
        names = DUNDER.get(op)
        if names is None:
            raise Undecided('operator %s on operators' % op.__name__)
        fwd, rev = names
        # element.__op__(operator) defers to operator.__rop__ because of
        # __array_priority__ (first statement of every LinearSpaceElement
        # dunder; checked by C01-R3); numbers return NotImplemented
        if lo:
            res = self.call_dunder(interp, l, fwd, r)
            if res is not NI:
                return res
        if ro:
            res = self.call_dunder(interp, r, rev, l)
            if res is not NI:
                return res
        raise PyRaise('TypeError')

    def call_dunder(self, interp, obj, name, other):
        ci = obj.ci if isinstance(obj, Inst) else interp.model.get('Operator')
        if isinstance(obj, OpV) and obj.functional and \
                'Functional' in interp.model.classes:
            ci = interp.model.get('Functional')
        dc, m = interp.model.lookup(ci, name)
        if m is None:
            return NI
        if isinstance(m, ast.Name):          # __div__ = __truediv__
            dc, m = interp.model.lookup(ci, m.id)
        if not isinstance(m, ast.FunctionDef):
            return NI
        return interp.call_func(Func(m, interp.env_of(dc.rel), dc), [other],
                                {}, obj)

    def on_getattr(self, interp, obj, name):
        if isinstance(obj, Vec) and name == 'T':
            # v.T : x -> <x, v>  (InnerProductOperator)
            raise Undecided('vector.T (inner product functional)')
        return NotImplemented


def make_interp(model, assume):
    return Interp(model, assume, OpHooks())


def apply(interp, op, x, out=None):
    """Apply an operator value (leaf symbol or expression instance)."""
    kw = {} if out is None else {'out': out}
    return interp.call(op, [x], kw)


def flags(interp, op):
    return (interp.getattr_value(op, 'domain'),
            interp.getattr_value(op, 'range'),
            bool(interp.getattr_value(op, 'is_linear')))
