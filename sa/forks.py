"""Path exploration by re-execution: an interpreter runs a function body
under a dict of assumptions ``{atom: bool}``; when it meets an atom it cannot
decide and that is not assumed yet it raises ``Fork(atom)`` and the driver
re-runs it with the atom assumed True and assumed False."""
from .core import Undecided


class Fork(Exception):
    def __init__(self, atom, choices=(True, False)):
        Exception.__init__(self, atom)
        self.atom = atom
        self.choices = choices


def explore(run, limit=4000, initial=None):
    """``run(assume) -> result``.  Returns ``[(assume, result)]`` for every
    feasible leaf.  ``run`` may return ``INFEASIBLE`` to drop a leaf."""
    out = []
    stack = [dict(initial or {})]
    n = 0
    while stack:
        a = stack.pop()
        n += 1
        if n > limit:
            raise Undecided('more than %d paths' % limit)
        try:
            r = run(a)
        except Fork as f:
            for c in reversed(f.choices):
                b = dict(a)
                b[f.atom] = c
                stack.append(b)
            continue
        if r is INFEASIBLE:
            continue
        out.append((a, r))
    return out


class _Infeasible(object):
    def __repr__(self):
        return 'INFEASIBLE'


INFEASIBLE = _Infeasible()
