"""E3 -- symbolic interpreter (value numbering with an abstract heap).

Interprets function bodies of the repository over symbolic values:

* ``Vec``    mutable vector-space element (heap cell) whose value is a linear
             form of the free vector-space algebra (``sa.vs``)
* ``Rat``    scalars (rational functions of symbols), python ints stay ints
* ``SpaceV`` / ``FieldV``  symbolic spaces and their fields
* ``OpV``    operator symbols (``sa.vs.Op`` terms) with domain/range/linear
* ``Inst``   symbolic instance of a repository class: attributes are filled
             by interpreting its ``__init__``; calling an operator instance
             interprets its ``_call`` (so the denotation of an expression
             object is *derived from the class's own code*)

Undecidable branch conditions raise ``Fork`` (see ``sa.forks``); constructs
outside the modelled subset raise ``Undecided``.  No repository code is
imported or executed: everything is interpreted over the algebra.
"""
from __future__ import annotations

import ast
from fractions import Fraction as Fr

from .core import Undecided
from .forks import Fork
from .ratfun import Rat, satom
from . import vs


# --------------------------------------------------------------------------
# values
class FieldV(object):
    def __init__(self, kind):
        self.kind = kind        # 'R' or 'C'

    def __eq__(self, o):
        return isinstance(o, FieldV) and o.kind == self.kind

    def __ne__(self, o):
        return not self == o

    def __hash__(self):
        return hash(('FieldV', self.kind))

    def __repr__(self):
        return 'Field(%s)' % self.kind


class SpaceV(object):
    """Symbolic linear space.  Two SpaceV are equal iff same name."""

    def __init__(self, name, field='R', parts=None, weighted=False):
        self.name = name
        self.field = FieldV(field) if field else None
        self.parts = parts      # list of SpaceV for product spaces
        self.attrs = {}

    def __eq__(self, o):
        return isinstance(o, SpaceV) and o.name == self.name

    def __ne__(self, o):
        return not self == o

    def __hash__(self):
        return hash(('SpaceV', self.name))

    @property
    def is_real(self):
        return self.field is not None and self.field.kind == 'R'

    def __repr__(self):
        return 'Space(%s)' % self.name


class Vec(object):
    _n = [0]

    def __init__(self, val, space, label=None):
        self.val = dict(val)
        self.space = space
        Vec._n[0] += 1
        self.id = Vec._n[0]
        self.label = label
        self.taint = set()      # atoms multiplied by a zero scalar

    def __repr__(self):
        return 'Vec#%d(%s)' % (self.id, vs.show(self.val))


class SharedVec(Vec):
    """An element that shares its memory with other wrapper objects (two
    `space.element(arr)` of one array, `z.real` taken twice): distinct
    objects, one storage cell."""

    def __init__(self, cell, space, label=None):
        self.cell = cell
        Vec.__init__(self, cell[0], space, label)

    @property
    def val(self):
        return self.cell[0]

    @val.setter
    def val(self, v):
        self.cell[0] = v


class PVec(object):
    """Product-space element: list of parts (Vec or PVec)."""

    def __init__(self, parts, space):
        self.parts = list(parts)
        self.space = space

    def __repr__(self):
        return 'PVec%r' % (self.parts,)


class OpV(object):
    """Operator value: algebraic term + interface metadata."""

    def __init__(self, term, domain, range_, linear, functional=False):
        self.term = term
        self.domain = domain
        self.range = range_
        self.linear = linear
        self.functional = functional
        self.attrs = {}

    def __repr__(self):
        return 'OpV(%s)' % getattr(self.term, 'name', type(self.term).__name__)


class Inst(object):
    def __init__(self, ci):
        self.ci = ci
        self.attrs = {}
        self.closures = {}      # class name -> defining scope (closure)

    def __repr__(self):
        return 'Inst(%s)' % self.ci.name


class TypeV(object):
    """type(x) of a model value: its most specific class name."""

    model_eq = True

    def __init__(self, name):
        self.name = name

    def __eq__(self, o):
        return isinstance(o, TypeV) and o.name == self.name

    def __hash__(self):
        return hash(('TypeV', self.name))

    def __repr__(self):
        return 'type(%s)' % self.name


class GenV(object):
    """A generator function call that has not started running."""

    def __init__(self, func, scope):
        self.func = func
        self.scope = scope
        self.cont = None

    def __repr__(self):
        return 'Generator(%s)' % self.func.name


_GEN_CACHE = {}


def _is_generator(node):
    if isinstance(node, ast.Lambda):
        return False
    k = id(node)
    if k not in _GEN_CACHE:
        _GEN_CACHE[k] = _has_yield(node.body)
    return _GEN_CACHE[k]


def _has_yield(stmts):
    todo = list(stmts)
    while todo:
        n = todo.pop()
        if isinstance(n, (ast.Yield, ast.YieldFrom)):
            return True
        if isinstance(n, (ast.FunctionDef, ast.Lambda, ast.ClassDef,
                          ast.AsyncFunctionDef)):
            continue
        todo.extend(ast.iter_child_nodes(n))
    return False


def _split_yield(stmts):
    for i, st in enumerate(stmts):
        if _has_yield([st]):
            if isinstance(st, (ast.Expr, ast.Assign, ast.Try)):
                return stmts[:i], st, stmts[i + 1:]
            raise Undecided('yield inside %s' % type(st).__name__)
    raise Undecided('generator without a yield statement')


class ClassV(object):
    def __init__(self, ci):
        self.ci = ci

    def __repr__(self):
        return 'Class(%s)' % self.ci.name


class Func(object):
    def __init__(self, node, env, ci=None, name=None):
        self.node = node
        self.env = env
        self.ci = ci
        self.name = name or getattr(node, 'name', '<lambda>')

    def __repr__(self):
        return 'Func(%s)' % self.name


class Bound(object):
    def __init__(self, func, selfv):
        self.func = func
        self.selfv = selfv


class Builtin(object):
    def __init__(self, name, fn):
        self.name = name
        self.fn = fn

    def __repr__(self):
        return 'Builtin(%s)' % self.name


class Opaque(object):
    def __init__(self, desc):
        self.desc = desc

    def __repr__(self):
        return 'Opaque(%s)' % self.desc


class SArr(object):
    """Symbolic 1-D array of concrete length (entries Rat / None=undefined);
    NumPy basic-slice semantics for reads (copies) and writes."""

    def __init__(self, items):
        self.items = list(items)

    def __len__(self):
        return len(self.items)

    def __repr__(self):
        return 'SArr(%r)' % (self.items,)


class Rec(object):
    """Ad-hoc record value with attributes (grids, intervals...)."""

    def __init__(self, kind, **attrs):
        self.kind = kind
        self.attrs = dict(attrs)

    def __repr__(self):
        return 'Rec(%s)' % self.kind


class ModuleV(object):
    """An imported module the interpreter knows nothing about."""

    def __init__(self, name):
        self.name = name

    def __repr__(self):
        return 'Module(%s)' % self.name


class _NP(object):
    def __repr__(self):
        return 'numpy'


NPV = _NP()


class _NI(object):
    def __repr__(self):
        return 'NotImplemented'


NI = _NI()


class PyRaise(Exception):
    """A ``raise`` statement was reached."""

    def __init__(self, name, node=None):
        Exception.__init__(self, name)
        self.name = name
        self.node = node


class _Return(Exception):
    def __init__(self, v):
        self.v = v


class _Break(Exception):
    pass


class _Continue(Exception):
    pass


NUMBER_CLASSES = {'Number', 'Real', 'Complex', 'Integral', 'int', 'float',
                  'complex'}


def is_scalar(v):
    return isinstance(v, (Rat, int, float, Fr)) and not isinstance(v, bool)


def to_rat(v):
    if isinstance(v, Rat):
        return v
    return vs.S(v)


# --------------------------------------------------------------------------
_NP_INEXACT = ('np.float16', 'np.float32', 'np.float64', 'np.float128',
               'np.complex64', 'np.complex128', 'np.complex256')
_NONFINITE = ('np.inf', '-np.inf', 'np.nan')
try:
    import numpy as _npx
    _np_bool = _npx.bool_
except ImportError:          # pragma: no cover
    _np_bool = bool
_CALL_FLAGS = ('_call_has_out', '_call_out_optional')


class Interp(object):
    """One symbolic execution under a dict of assumptions."""

    MAX_DEPTH = 40

    def __init__(self, model, assume=None, hooks=None):
        self.model = model
        self.assume = assume if assume is not None else {}
        self.hooks = hooks
        self.depth = 0
        self.reg = {}            # operator registry for vs.move / deriv
        self.real_scalars = set()
        self.nonzero = []        # scalar expressions known to be non-zero
        self.real_vecs = set()
        self.trace = []          # (kind, data) events for rules
        self.steps = 0
        self.module_env = {}     # rel -> env of module-level names
        self.gensym = [0]

    # ---- helpers ---------------------------------------------------------
    def fresh_vec(self, space, label='g'):
        self.gensym[0] += 1
        name = '%s#%d' % (label, self.gensym[0])
        return Vec(vs.sym(name), space, label=name)

    def opsym(self, name, domain, range_, linear, functional=False):
        term = vs.OSym(name, linear, self.reg)
        op = OpV(term, domain, range_, linear, functional)
        if functional:
            op.attrs['grad_lipschitz'] = Rat.var('Lip_' + name)
        return op

    def decide(self, key, node=None):
        if key in self.assume:
            return self.assume[key]
        raise Fork(key)

    def decide_cond(self, c, node=None):
        if c.rat is not None and c.key.startswith('eq0:'):
            for nz in self.nonzero:
                if c.rat == nz or c.rat == -nz:
                    return False
        if self.hooks is not None:
            r = self.hooks.on_decide(self, c, node)
            if r is not NotImplemented:
                return r
        return self.decide(c.key, node)

    # ---- module environments ------------------------------------------------
    def env_of(self, rel):
        if rel in self.module_env:
            return self.module_env[rel]
        env = {}
        self.module_env[rel] = env
        tree = self.model.ctx.tree(rel)
        for n in tree.body:
            if isinstance(n, ast.FunctionDef):
                env[n.name] = Func(n, env, None)
            elif isinstance(n, ast.ClassDef) and n.name in self.model.classes:
                env[n.name] = ClassV(self.model.classes[n.name])
            elif isinstance(n, ast.Assign) and len(n.targets) == 1 and \
                    isinstance(n.targets[0], ast.Name):
                try:
                    env[n.targets[0].id] = ast.literal_eval(n.value)
                except Exception:
                    pass
            elif isinstance(n, ast.ImportFrom) and n.module and \
                    n.module.startswith('odl.') and n.level == 0:
                # literal module-level constants imported from another
                # module of the repository
                rel2 = n.module.replace('.', '/') + '.py'
                try:
                    self.model.ctx.tree(rel2)
                except Exception:
                    continue
                env2 = self.env_of(rel2)
                for a in n.names:
                    v = env2.get(a.name, self)
                    if v is not self and not isinstance(v, (Func, ClassV)):
                        env.setdefault(a.asname or a.name, v)
        env['__rel__'] = rel
        return env

    def lookup_global(self, name, env):
        if self.hooks is not None:
            r = self.hooks.on_name(self, name)
            if r is not NotImplemented:
                return r
        if name in ('np', 'numpy'):
            return NPV
        if name == 'object':
            return Opaque('object')
        if name in ('copy', 'deepcopy'):
            def cp(v):
                if isinstance(v, Vec):
                    return Vec(v.val, v.space)
                if isinstance(v, (list, dict)):
                    return type(v)(v)
                return v
            return Builtin(name, cp)
        if name in self.model.classes:
            return ClassV(self.model.classes[name])
        if name in _PY_BUILTINS and name != 'isinstance':
            return Builtin(name, lambda *a, **k: self.py_builtin(
                name, list(a), k, None, None, None))
        cands = self.model.func_by_name.get(name)
        if cands:
            rel, fn = cands[0]
            return Func(fn, self.env_of(rel), None)
        raise Undecided('unknown name %s' % name)

    # ---- calling -----------------------------------------------------------
    def call_func(self, func, args, kwargs, selfv=None):
        self.depth += 1
        if self.depth > self.MAX_DEPTH:
            self.depth -= 1
            raise Undecided('call depth exceeded in %s' % func.name)
        try:
            node = func.node
            env = dict(func.env) if not isinstance(func.env, _Scope) else None
            scope = _Scope(func.env)
            a = node.args
            params = [p.arg for p in a.posonlyargs + a.args]
            allargs = list(args)
            if selfv is not None:
                allargs = [selfv] + allargs
            if len(allargs) > len(params) and a.vararg is None:
                raise Undecided('too many arguments for %s' % func.name)
            for p, v in zip(params, allargs):
                scope.vars[p] = v
            if a.vararg is not None:
                scope.vars[a.vararg.arg] = tuple(allargs[len(params):])
            kw = dict(kwargs)
            kwonly = [p.arg for p in a.kwonlyargs]
            for p in params[len(allargs):] + kwonly:
                if p in kw:
                    scope.vars[p] = kw.pop(p)
            if kw:
                if a.kwarg is not None:
                    scope.vars[a.kwarg.arg] = dict(kw)
                else:
                    raise Undecided('unexpected keyword %s for %s'
                                    % (sorted(kw), func.name))
            elif a.kwarg is not None:
                scope.vars[a.kwarg.arg] = {}
            # defaults
            pos = a.posonlyargs + a.args
            for p, d in zip(reversed(pos), reversed(a.defaults)):
                if p.arg not in scope.vars:
                    scope.vars[p.arg] = self.ev(d, _Scope(func.env), func)
            for p, d in zip(a.kwonlyargs, a.kw_defaults):
                if p.arg not in scope.vars and d is not None:
                    scope.vars[p.arg] = self.ev(d, _Scope(func.env), func)
            for p in params + kwonly:
                if p not in scope.vars:
                    raise Undecided('missing argument %s for %s'
                                    % (p, func.name))
            if isinstance(node, ast.Lambda):
                return self.ev(node.body, scope, func)
            if self.depth == 1:
                self.last_scope = scope
            if _is_generator(node):
                # run lazily: only the context-manager protocol is modelled
                return GenV(func, scope)
            try:
                self.exec_block(node.body, scope, func)
            except _Return as r:
                return r.v
            return None
        finally:
            self.depth -= 1

    # ---- generator based context managers -------------------------------
    def cm_enter(self, g):
        """Run a @contextmanager generator up to its (single, top-level or
        try-level) yield; returns the yielded value."""
        body = list(g.func.node.body)
        pre, ys, post = _split_yield(body)
        self.exec_block(pre, g.scope, g.func)
        if isinstance(ys, ast.Try):
            pre2, y2, post2 = _split_yield(list(ys.body))
            try:
                self.exec_block(pre2, g.scope, g.func)
            except PyRaise:
                self.exec_block(ys.finalbody, g.scope, g.func)
                raise
            g.cont = ('try', post2, ys, post)
            ynode = y2
        else:
            g.cont = ('plain', post)
            ynode = ys
        yv = ynode.value
        if not isinstance(yv, ast.Yield):
            raise Undecided('unsupported yield statement')
        val = None if yv.value is None else self.ev(yv.value, g.scope,
                                                    g.func)
        if isinstance(ynode, ast.Assign):
            self.assign(ynode.targets[0], None, g.scope, g.func)
        return val

    def cm_exit(self, g, exc=None):
        """Resume after the yield (normally, or with the PyRaise ``exc``
        thrown in); returns True if the exception is suppressed."""
        kind = g.cont[0]
        try:
            if kind == 'plain':
                if exc is None:
                    self.exec_block(g.cont[1], g.scope, g.func)
                return False
            _, post2, tr, post = g.cont
            suppressed = False
            try:
                if exc is None:
                    self.exec_block(post2, g.scope, g.func)
                    self.exec_block(tr.orelse, g.scope, g.func)
                else:
                    for h in tr.handlers:
                        names = None if h.type is None else (
                            [ast.unparse(x) for x in h.type.elts]
                            if isinstance(h.type, ast.Tuple)
                            else [ast.unparse(h.type)])
                        if names is None or exc.name in names or \
                                'Exception' in names:
                            self.exec_block(h.body, g.scope, g.func)
                            suppressed = True
                            break
            finally:
                self.exec_block(tr.finalbody, g.scope, g.func)
            if exc is None or suppressed:
                self.exec_block(post, g.scope, g.func)
            return suppressed
        except _Return:
            return False

    def call(self, f, args, kwargs, node=None):
        if self.hooks is not None:
            r = self.hooks.on_call(self, f, args, kwargs, node)
            if r is not NotImplemented:
                return r
        if isinstance(f, Builtin):
            return f.fn(*args, **kwargs)
        if isinstance(f, Bound):
            return self.call_func(f.func, args, kwargs, f.selfv)
        if isinstance(f, Func):
            return self.call_func(f, args, kwargs)
        if isinstance(f, ClassV):
            return self.instantiate(f.ci, args, kwargs,
                                    getattr(f, 'closure', None))
        if isinstance(f, OpV):
            return self.apply_op(f, args, kwargs)
        if isinstance(f, Inst):
            return self.call_inst(f, args, kwargs)
        if isinstance(f, Opaque):
            if f.desc in _NP_INEXACT and len(args) == 1 and not kwargs \
                    and is_scalar(args[0]):
                # NumPy floating / complex scalar type applied to a number:
                # the number (exact arithmetic, rounding is not modelled)
                return to_rat(args[0])
            return Opaque(f.desc + '()')
        raise Undecided('call of %r' % (f,))

    # operator application ----------------------------------------------------
    def apply_op(self, op, args, kwargs):
        if len(args) == 2 and 'out' not in kwargs:
            kwargs = dict(kwargs, out=args[1])
            args = args[:1]
        if len(args) != 1:
            raise Undecided('operator called with %d arguments' % len(args))
        x = args[0]
        out = kwargs.get('out')
        if op.functional:
            if out is not None:
                raise PyRaise('TypeError')
            xv = self.vec_val(x, op.domain)
            if op.linear:
                tot = Rat.const(0)
                for k, c in xv.items():
                    tot = tot + c * Rat.var(satom('F', op.term.key(), k))
                return tot
            fz = vs.freeze(xv)
            return Rat.var(satom('F', op.term.key(), fz))
        if isinstance(op.domain, FieldV) or is_scalar(x):
            raise Undecided('operator on a field domain')
        xv = self.vec_val(x, op.domain)
        res = op.term.apply(xv)
        if out is None:
            return self.wrap_result(res, op.range)
        if not isinstance(out, Vec):
            raise Undecided('out= is not a vector')
        if out is x and getattr(self, 'alias_poison', False) and \
                not str(op.term.key()[1]).startswith('prox['):
            # an uninterpreted operator promises nothing for op(v, out=v);
            # when the caller of the analysed expression did not alias, an
            # aliased inner call is the expression's own doing
            res = vs.sym('aliased-call:%s' % (op.term.key(),))
        out.val = dict(res)
        return out

    def wrap_result(self, lf, space):
        if isinstance(space, FieldV):
            raise Undecided('field-valued operator result')
        return Vec(lf, space)

    def vec_val(self, x, space=None):
        if isinstance(x, Vec):
            return x.val
        raise Undecided('expected a vector, got %r' % (x,))

    def call_inst(self, inst, args, kwargs):
        """Call an instance of a repository class (an Operator instance goes
        through the protocol of Operator.__call__)."""
        ci = inst.ci
        if self.model.is_subclass(ci, 'Operator'):
            if len(args) == 2 and 'out' not in kwargs:
                kwargs = dict(kwargs, out=args[1])
                args = args[:1]
            x = args[0]
            out = kwargs.get('out')
            dc, fn = self.model.lookup(ci, '_call')
            if not isinstance(fn, ast.FunctionDef) or dc.name == 'Operator':
                # Operator._call of the base class: "does not implement
                # `_call`"
                raise PyRaise('NotImplementedError')
            pos = [p.arg for p in fn.args.args]
            has_out = 'out' in pos or 'out' in [p.arg for p in
                                                fn.args.kwonlyargs]
            ndef = len(fn.args.defaults)
            out_optional = has_out and ('out' not in pos or
                                        pos.index('out') >= len(pos) - ndef)
            f = Func(fn, self.method_env(inst, dc), dc)
            if out is None:
                if has_out and not out_optional:
                    # in-place only: default bridge allocates from the range
                    rng = self.getattr_value(inst, 'range')
                    o = self.new_element(rng)
                    self.call_func(f, [x, o], {}, inst)
                    return o
                r = self.call_func(f, [x], {}, inst)
                return r
            if has_out:
                r = self.call_func(f, [x], {'out': out}, inst)
                if r is not None and r is not out:
                    raise Undecided('in-place _call of %s returned a '
                                    'different object' % ci.name)
                return out
            r = self.call_func(f, [x], {}, inst)
            self.assign_into(out, r)
            return out
        dc, fn = self.model.lookup(ci, '__call__')
        if isinstance(fn, ast.FunctionDef):
            return self.call_func(Func(fn, self.env_of(dc.rel), dc), args,
                                  kwargs, inst)
        raise Undecided('instance of %s is not callable' % ci.name)

    def new_element(self, space):
        if isinstance(space, SpaceV):
            if space.parts is not None:
                return PVec([self.new_element(p) for p in space.parts],
                            space)
            return self.fresh_vec(space)
        raise Undecided('element() of %r' % (space,))

    def assign_into(self, out, r):
        if isinstance(out, Vec) and isinstance(r, Vec):
            out.val = dict(r.val)
            return
        if isinstance(out, PVec) and isinstance(r, PVec):
            for o, p in zip(out.parts, r.parts):
                self.assign_into(o, p)
            return
        raise Undecided('assign %r into %r' % (r, out))

    # instantiation --------------------------------------------------------------
    def instantiate(self, ci, args, kwargs, closure=None):
        inst = Inst(ci)
        if closure is not None:
            inst.closures[ci.name] = closure
        dc, init = self.model.lookup(ci, '__init__')
        if isinstance(init, ast.FunctionDef):
            self.call_func(Func(init, self.method_env(inst, dc), dc), args,
                           kwargs, inst)
        return inst

    def method_env(self, inst, dc):
        if isinstance(inst, Inst) and dc.name in inst.closures:
            return inst.closures[dc.name]
        return self.env_of(dc.rel)

    # ---- attribute access ---------------------------------------------------
    def mangle(self, name, func):
        if name.startswith('__') and not name.endswith('__') and \
                func is not None and func.ci is not None:
            return '_%s%s' % (func.ci.name.lstrip('_'), name)
        return name

    def getattr_value(self, obj, name, func=None):
        if self.hooks is not None:
            r = self.hooks.on_getattr(self, obj, name)
            if r is not NotImplemented:
                return r
        if isinstance(obj, Inst):
            key = self.mangle(name, func)
            if key in obj.attrs:
                return obj.attrs[key]
            dc, m = self.model.lookup(obj.ci, name)
            if isinstance(m, ast.FunctionDef):
                f = Func(m, self.method_env(obj, dc), dc)
                if dc.is_property(name) or any(
                        isinstance(d, ast.Name) and d.id == 'property'
                        for d in m.decorator_list):
                    return self.call_func(f, [], {}, obj)
                decs = [d.id for d in m.decorator_list
                        if isinstance(d, ast.Name)]
                if 'staticmethod' in decs:
                    return f
                if 'classmethod' in decs:
                    return Bound(f, ClassV(obj.ci))
                return Bound(f, obj)
            if m is not None:
                # class attribute (possibly an alias of another method)
                if isinstance(m, ast.Name):
                    return self.getattr_value(obj, m.id, func)
                try:
                    return ast.literal_eval(m)
                except Exception:
                    raise Undecided('class attribute %s.%s' % (obj.ci.name,
                                                               name))
            if name in _CALL_FLAGS and self.model.is_subclass(obj.ci,
                                                             'Operator'):
                return self.call_flags(obj.ci)[name]
            raise PyRaise('AttributeError', ast.parse(
                '%s.%s' % (obj.ci.name, name)).body[0])
        if isinstance(obj, OpV):
            return self.op_attr(obj, name)
        if isinstance(obj, Vec) or isinstance(obj, PVec):
            return self.vec_attr(obj, name)
        if isinstance(obj, SpaceV):
            return self.space_attr(obj, name)
        if isinstance(obj, Rec):
            if name in obj.attrs:
                return obj.attrs[name]
            raise PyRaise('AttributeError')
        if isinstance(obj, Opaque) and not obj.desc.startswith('np.nan'):
            return Opaque(obj.desc + '.' + name)
        if isinstance(obj, _Ufuncs):
            return self.ufunc_attr(obj, name)
        if obj is NPV:
            return self.np_attr(name)
        if isinstance(obj, ModuleV):
            if obj.name == 'builtins' and name in _PY_BUILTINS and \
                    name != 'isinstance':
                return Builtin(name, lambda *a, **k: self.py_builtin(
                    name, list(a), k, None, None, None))
            return ModuleV(obj.name + '.' + name)
        if isinstance(obj, ClassV):
            dc, m = self.model.lookup(obj.ci, name)
            if isinstance(m, ast.FunctionDef):
                return Func(m, self.env_of(dc.rel), dc)
            raise Undecided('class attribute %s.%s' % (obj.ci.name, name))
        if isinstance(obj, FieldV):
            if name == 'field':
                return obj
            if name == 'element':
                return Builtin('field.element', lambda v=0: v)
            raise Undecided('field attribute %s' % name)
        if isinstance(obj, slice) and name in ('start', 'stop', 'step'):
            return getattr(obj, name)
        if isinstance(obj, list) and name in ('count', 'index', 'extend',
                                              'insert', 'pop', 'remove'):
            def lm(*a, **k):
                try:
                    return getattr(obj, name)(*a, **k)
                except (ValueError, IndexError) as e:
                    raise PyRaise(type(e).__name__)
            return Builtin('list.' + name, lm)
        if isinstance(obj, list) and name in ('sort', 'reverse'):
            def lsort(key=None, reverse=False):
                if name == 'reverse':
                    obj.reverse()
                    return None

                def k(v):
                    r = self.call(key, [v], {}) if key is not None else v
                    if isinstance(r, bool):
                        return int(r)
                    if is_scalar(r) and to_rat(r).is_const():
                        return to_rat(r).constant()
                    raise Undecided('sort key %r' % (r,))
                obj.sort(key=k, reverse=bool(reverse))    # stable, like list.sort
                return None
            return Builtin('list.' + name, lsort)
        if isinstance(obj, dict) and name in ('pop', 'get'):
            def pop(k, d=None, obj=obj, name=name):
                if name == 'pop':
                    return obj.pop(k, d)
                return obj.get(k, d)
            return Builtin('dict.' + name, pop)
        if is_scalar(obj):
            r_ = to_rat(obj)
            isreal = all((v in self.real_scalars) or (
                isinstance(v, tuple) and v and v[0] in (
                    'norm', 'abs', 'real', 'imag', 'F', 'red'))
                for v in r_.vars())
            if name in ('real',):
                return obj if isreal else Rat.var(satom('real', r_))
            if name in ('conjugate', 'conj'):
                return Builtin('conj', lambda o=obj: vs.conj_scalar(
                    to_rat(o), self.real_scalars))
            if name == 'imag':
                return 0 if isreal else Rat.var(satom('imag', r_))
        if isinstance(obj, (list, tuple)) and name == 'append':
            return Builtin('append', obj.append)
        if isinstance(obj, str) and name in ('lower', 'upper', 'strip',
                                             'lstrip', 'rstrip', 'format',
                                             'startswith', 'endswith',
                                             'join', 'replace', 'split'):
            return Builtin('str.' + name, getattr(obj, name))
        if isinstance(obj, dict) and name in ('items', 'keys', 'values'):
            return Builtin('dict.' + name, lambda: list(getattr(obj,
                                                                name)()))
        if isinstance(obj, dict) and name in ('update', 'setdefault', 'copy',
                                              'clear'):
            return Builtin('dict.' + name, getattr(obj, name))
        raise Undecided('attribute %s of %r' % (name, obj))

    def call_flags(self, ci):
        """The flags Operator.__new__ derives from the signature of the
        class's `_call` (has an `out` parameter / it is optional)."""
        dc, fn = self.model.lookup(ci, '_call')
        if not isinstance(fn, ast.FunctionDef) or dc.name == 'Operator':
            raise Undecided('%s has no _call' % ci.name)
        pos = [p.arg for p in fn.args.args]
        has_out = 'out' in pos or 'out' in [p.arg for p in
                                            fn.args.kwonlyargs]
        ndef = len(fn.args.defaults)
        out_optional = has_out and ('out' not in pos or
                                    pos.index('out') >= len(pos) - ndef)
        return {'_call_has_out': has_out, '_call_out_optional': out_optional}

    def op_attr(self, op, name):
        if name in op.attrs:
            return op.attrs[name]
        if name in _CALL_FLAGS:
            # an abstract leaf may have either kind of `_call`
            k = op.term.key() if hasattr(op.term, 'key') else None
            if k is None:
                raise Undecided('%s of a composite abstract operator' % name)
            if name == '_call_out_optional' and not self.truth_value(
                    _Cond('leaf %r has_out' % (k,)), None):
                return False
            return _Cond('leaf %r %s' % (k, name[6:]))
        if name == 'domain':
            return op.domain
        if name == 'range':
            return op.range
        if name == 'is_linear':
            return op.linear
        if name == 'is_functional':
            return op.functional
        if name == 'adjoint':
            if not op.linear:
                raise PyRaise('OpNotImplementedError')
            t = op.term.adj()
            return OpV(t, op.range, op.domain, True)
        if name == 'inverse':
            if not hasattr(op.term, 'inv'):
                raise Undecided('inverse of a composite term')
            return OpV(op.term.inv(), op.range, op.domain, op.linear)
        if name == 'derivative':
            def der(pt, op=op):
                if op.linear:
                    return op
                t = op.term.deriv(self.vec_val(pt))
                return OpV(t, op.domain, op.range, True)
            return Builtin('derivative', der)
        if name == 'T' and op.functional:
            raise Undecided('functional.T')
        base = 'Functional' if (op.functional and 'Functional' in
                                self.model.classes) else 'Operator'
        dc, m = self.model.lookup(self.model.get(base), name)
        if isinstance(m, ast.Name):
            dc, m = self.model.lookup(self.model.get(base), m.id)
        if isinstance(m, ast.FunctionDef) and not dc.is_property(name):
            return Bound(Func(m, self.env_of(dc.rel), dc), op)
        raise Undecided('operator attribute %s' % name)

    def vec_attr(self, v, name):
        if name == 'space':
            return v.space
        if name == 'parts' and isinstance(v, PVec):
            return v.parts
        I = self
        if isinstance(v, PVec):
            raise Undecided('attribute %s of a product-space element' % name)
        if name == 'copy':
            return Builtin('copy', lambda: Vec(v.val, v.space))
        if name == 'assign':
            def assign(o):
                v.val = dict(I.vec_val(o))
                return v
            return Builtin('assign', assign)
        if name == 'set_zero':
            def set_zero():
                v.val = {}
                return v
            return Builtin('set_zero', set_zero)
        if name == 'lincomb':
            def lincomb(a, x1, b=None, x2=None):
                return I.prim_lincomb(a, x1, b, x2, v)
            return Builtin('lincomb', lincomb)
        if name == 'multiply':
            def multiply(o, out=None):
                return I.prim_multiply(v, o, out)
            return Builtin('multiply', multiply)
        if name == 'divide':
            def divide(o, out=None):
                return I.prim_divide(v, o, out)
            return Builtin('divide', divide)
        if name in ('conj', 'conjugate'):
            def conj(out=None):
                r = vs.conj(v.val, I.real_scalars, I.real_vecs)
                if v.space.is_real:
                    r = dict(v.val)
                if out is None:
                    return Vec(r, v.space)
                out.val = r
                return out
            return Builtin('conj', conj)
        if name == 'ufuncs':
            return _Ufuncs(self, v)
        if name == 'norm':
            return Builtin('norm', lambda: Rat.var(satom('norm',
                                                    vs.freeze(v.val))))
        if name == 'inner':
            return Builtin('inner', lambda o: Rat.var(satom('inner', vs.freeze(v.val), vs.freeze(I.vec_val(o)))))
        if name == 'dist':
            return Builtin('dist', lambda o: Rat.var(satom('norm', vs.freeze(vs.add(v.val, I.vec_val(o), -1)))))
        if name == 'T':
            raise Undecided('vector.T')
        if name in ('shape', 'dtype', 'size', 'ndim'):
            return Opaque('meta.' + name)
        if name == 'real' or name == 'imag':
            if v.space.is_real and name == 'real':
                return v
            raise Undecided('real/imag view of a vector')
        if 'LinearSpaceElement' in self.model.classes:
            ci = self.model.get('LinearSpaceElement')
            dc, m = self.model.lookup(ci, name)
            if isinstance(m, ast.Name):
                dc, m = self.model.lookup(ci, m.id)
            if isinstance(m, ast.FunctionDef):
                return Bound(Func(m, self.env_of(dc.rel), dc), v)
            if m is not None:
                try:
                    val = ast.literal_eval(m)
                    return Rat.const(Fr(repr(val))) if isinstance(
                        val, float) else val
                except Exception:
                    pass
        raise Undecided('vector attribute %s' % name)

    def ufunc_attr(self, u, name):
        I = self
        v = u.v

        def call(*args, **kw):
            out = kw.pop('out', None)
            if kw:
                raise Undecided('ufunc keyword %s' % sorted(kw))
            fa = []
            for a in args:
                if isinstance(a, Vec):
                    fa.append(a.val)
                elif is_scalar(a):
                    fa.append(to_rat(a))
                else:
                    raise Undecided('ufunc argument %r' % (a,))
            if name in ('sum', 'max', 'min', 'prod'):
                return Rat.var(satom('red', name, vs.freeze(v.val)))
            r = vs.fn(name, v.val, *fa)
            if out is None:
                return Vec(r, v.space)
            if not isinstance(out, Vec):
                raise Undecided('ufunc out=%r' % (out,))
            out.val = r
            return out
        return Builtin('ufuncs.' + name, call)

    def np_attr(self, name):
        I = self
        if name in ('nan', 'inf', 'infty', 'pi', 'e'):
            return Opaque('np.' + name)
        if name in ('abs', 'absolute'):
            def ab(v):
                if isinstance(v, Opaque):
                    return v
                r = to_rat(v)
                if r.is_const():
                    return Rat.const(abs(r.constant()))
                return Rat.var(satom('abs', r))
            return Builtin('np.abs', ab)
        if name == 'isscalar':
            return Builtin('np.isscalar', lambda v: is_scalar(v))
        if name == 'finfo':
            # machine constants: one positive symbol (an absolute tolerance)
            return Builtin('np.finfo', lambda *a, **k: Rec(
                'finfo', eps=Rat.var('eps_machine'),
                resolution=Rat.var('eps_machine'),
                tiny=Rat.var('eps_machine')))
        if name == 'sqrt':
            def sq(v):
                r = to_rat(v)
                if r.is_const() and r.constant() in (0, 1):
                    return r
                return Rat.var(satom('sqrt', r))
            return Builtin('np.sqrt', sq)
        if name in ('conj', 'conjugate'):
            def npconj(v):
                if isinstance(v, Vec):
                    if v.space.is_real:
                        return Vec(v.val, v.space)
                    return Vec(vs.conj(v.val, I.real_scalars, I.real_vecs),
                               v.space)
                return vs.conj_scalar(to_rat(v), I.real_scalars)
            return Builtin('np.conj', npconj)
        if name == 'isnan':
            def isnan(v):
                one = lambda z: isinstance(z, Opaque) and z.desc == 'np.nan'
                if isinstance(v, (list, tuple)):
                    return [one(z) for z in v]
                if isinstance(v, SArr):
                    return SArr([one(z) for z in v.items])
                return one(v)
            return Builtin('np.isnan', isnan)
        if name in ('nansum', 'nanmax', 'nanmin'):
            def nanred(v, **k):
                vals = v.items if isinstance(v, SArr) else v
                if not isinstance(vals, (list, tuple)):
                    vals = [vals]
                keep = [z for z in vals if not (isinstance(z, Opaque) and
                                                z.desc == 'np.nan')]
                if not all(is_scalar(z) and not isinstance(z, Opaque)
                           for z in keep):
                    raise Undecided('np.%s of %r' % (name, vals))
                if name == 'nansum':
                    tot = Rat.const(0)
                    for z in keep:
                        tot = tot + to_rat(z)
                    return tot
                if not keep:
                    return Opaque('np.nan')
                raise Undecided('np.%s' % name)
            return Builtin('np.' + name, nanred)
        if name == 'isfinite':
            return Builtin('np.isfinite', lambda v: not isinstance(v, Opaque))
        if name in ('maximum', 'minimum'):
            def mm(a, b, out=None):
                if isinstance(a, Vec):
                    r = vs.fn(name, a.val, b.val if isinstance(b, Vec)
                              else to_rat(b))
                    if out is None:
                        return Vec(r, a.space)
                    out.val = r
                    return out
                raise Undecided('np.%s of scalars' % name)
            return Builtin('np.' + name, mm)
        if name in ('asarray', 'array', 'atleast_1d'):
            def asarr(v, **k):
                if isinstance(v, (list, tuple)) and all(
                        is_scalar(x) for x in v):
                    return SArr(list(v))
                if is_scalar(v) and name == 'atleast_1d':
                    return SArr([v])
                return v
            return Builtin('np.' + name, asarr)
        if name in ('empty', 'zeros', 'ones'):
            def mk(n, *a, **k):
                if isinstance(n, (tuple, list)) and len(n) == 1:
                    n = n[0]
                if not isinstance(n, int):
                    raise Undecided('np.%s(%r)' % (name, n))
                fill = {'empty': None, 'zeros': 0, 'ones': 1}[name]
                dt = k.get('dtype')
                if name == 'zeros' and (dt is True.__class__ or (
                        isinstance(dt, Builtin) and dt.name == 'bool')):
                    fill = False
                return SArr([fill] * n)
            return Builtin('np.' + name, mk)
        if name == 'copy':
            def cp(a, **k):
                return SArr(list(a.items)) if isinstance(a, SArr) else a
            return Builtin('np.copy', cp)
        if name in ('empty_like', 'zeros_like'):
            def mkl(a, **k):
                if isinstance(a, SArr):
                    return SArr([None if name == 'empty_like' else 0]
                                * len(a.items))
                raise Undecided('np.%s(%r)' % (name, a))
            return Builtin('np.' + name, mkl)
        if name == 'size':
            def size(v):
                if isinstance(v, (SArr,)):
                    return len(v.items)
                if isinstance(v, (list, tuple)):
                    return len(v)
                return 1
            return Builtin('np.size', size)
        if name in ('max', 'min'):
            def mx(v, **k):
                vals = v.items if isinstance(v, SArr) else v
                if all(isinstance(x, int) for x in vals):
                    return max(vals) if name == 'max' else min(vals)
                raise Undecided('np.%s of symbolic values' % name)
            return Builtin('np.' + name, mx)
        if name in ('any', 'all'):
            def anyall(v=None, *a, **k):
                vals = v.items if isinstance(v, SArr) else v
                if isinstance(vals, (list, tuple)) and all(
                        isinstance(z, bool) for z in vals) and not a \
                        and not k:
                    return any(vals) if name == 'any' else all(vals)
                if isinstance(vals, bool):
                    return vals
                return Opaque('np.' + name)
            return Builtin('np.' + name, anyall)
        if name in ('less', 'greater', 'less_equal', 'greater_equal'):
            return Builtin('np.' + name, lambda *a, **k: Opaque('np.' + name))
        if name == 'logical_not':
            def lnot(v):
                items = v.items if isinstance(v, SArr) else list(v)
                return SArr([not self.truth_value(x) for x in items])
            return Builtin('np.logical_not', lnot)
        if name == 'random':
            return ModuleV('np.random')
        raise Undecided('np.%s' % name)

    def space_attr(self, s, name):
        I = self
        if name in s.attrs:
            return s.attrs[name]
        if name == 'field':
            return s.field
        if name == 'is_real':
            return s.is_real
        if name == 'is_complex':
            return s.field is not None and s.field.kind == 'C'
        if name == 'element':
            def element(inp=None, **kw):
                if inp is None:
                    return I.new_element(s)
                if isinstance(inp, (Vec, PVec)) and inp.space == s:
                    return inp
                if isinstance(inp, list) and s.parts is not None and \
                        len(inp) == len(s.parts):
                    return PVec(inp, s)
                raise Undecided('space.element(%r)' % (inp,))
            return Builtin('element', element)
        if name == 'zero':
            def zero(sp=s):
                if getattr(sp, 'parts', None) is not None:
                    return PVec([zero(p) for p in sp.parts], sp)
                return Vec({}, sp)
            return Builtin('zero', zero)
        if name == 'one':
            return Builtin('one', lambda: Vec(vs.sym('ONE'), s))
        if name == 'lincomb':
            def lincomb(a, x1, b=None, x2=None, out=None):
                if out is None:
                    out = I.new_element(s)
                return I.prim_lincomb(a, x1, b, x2, out)
            return Builtin('lincomb', lincomb)
        if name == 'multiply':
            return Builtin('multiply', lambda x1, x2, out=None:
                           I.prim_multiply(x1, x2, out))
        if name == 'divide':
            return Builtin('divide', lambda x1, x2, out=None:
                           I.prim_divide(x1, x2, out))
        if name == 'real_space' or name == 'complex_space':
            return SpaceV('%s.%s' % (s.name, name),
                          'R' if name == 'real_space' else 'C')
        if name == 'tangent_bundle':
            raise Undecided('tangent bundle')
        if name in ('shape', 'dtype', 'size', 'ndim'):
            return Opaque('meta.' + name)
        raise Undecided('space attribute %s' % name)

    # primitives -----------------------------------------------------------------
    def prim_lincomb(self, a, x1, b, x2, out):
        if isinstance(out, PVec):
            for i, o in enumerate(out.parts):
                self.prim_lincomb(a, x1.parts[i], b,
                                  None if x2 is None else x2.parts[i], o)
            return out
        r = vs.scale(self.vec_val(x1), to_rat(a))
        if b is not None:
            r = vs.add(r, vs.scale(self.vec_val(x2), to_rat(b)))
        elif x2 is not None:
            raise PyRaise('ValueError')
        out.val = r
        out.taint = set()
        return out

    def prim_multiply(self, x1, x2, out):
        r = vs.mul(self.vec_val(x1), self.vec_val(x2))
        if out is None:
            return Vec(r, x1.space)
        out.val = r
        return out

    def prim_divide(self, x1, x2, out):
        r = vs.div(self.vec_val(x1), self.vec_val(x2))
        if out is None:
            return Vec(r, x1.space)
        out.val = r
        return out

    # ---- statements ------------------------------------------------------------
    def exec_block(self, stmts, scope, func):
        for s in stmts:
            self.exec_stmt(s, scope, func)

    def exec_stmt(self, s, scope, func):
        try:
            return self._exec_stmt(s, scope, func)
        except PyRaise as e:
            if e.node is None:
                e.node = s        # the statement an implicit raise is in
            raise

    def _exec_stmt(self, s, scope, func):
        self.steps += 1
        if self.steps > 200000:
            raise Undecided('step limit')
        if isinstance(s, ast.Expr):
            if isinstance(s.value, ast.Constant):
                return
            self.ev(s.value, scope, func)
            return
        if isinstance(s, ast.Return):
            raise _Return(self.ev(s.value, scope, func)
                          if s.value is not None else None)
        if isinstance(s, ast.If):
            if self.truth(s.test, scope, func):
                self.exec_block(s.body, scope, func)
            else:
                self.exec_block(s.orelse, scope, func)
            return
        if isinstance(s, ast.Assign):
            v = self.ev(s.value, scope, func)
            for t in s.targets:
                self.assign(t, v, scope, func)
            return
        if isinstance(s, ast.AugAssign):
            self.augassign(s, scope, func)
            return
        if isinstance(s, ast.Raise):
            name = 'Exception'
            if s.exc is not None:
                e = s.exc.func if isinstance(s.exc, ast.Call) else s.exc
                name = ast.unparse(e)
            raise PyRaise(name, s)
        if isinstance(s, ast.Import):
            for al in s.names:
                top = al.name.split('.')[0]
                if top not in ('numpy',):
                    scope.vars[al.asname or top] = ModuleV(
                        al.name if al.asname else top)
            return
        if isinstance(s, (ast.Pass, ast.ImportFrom, ast.Global,
                          ast.Nonlocal, ast.Assert)):
            return
        if isinstance(s, ast.FunctionDef):
            scope.vars[s.name] = Func(s, scope, func.ci if func else None)
            return
        if isinstance(s, ast.ClassDef):
            if s.name in self.model.classes:
                cv = ClassV(self.model.classes[s.name])
                cv.closure = scope
                scope.vars[s.name] = cv
                return
            raise Undecided('local class %s' % s.name)
        if isinstance(s, ast.For):
            it = self.seq(self.ev(s.iter, scope, func))
            if not isinstance(it, (list, tuple, range)):
                raise Undecided('loop over %r' % (it,))
            broke = False
            for item in it:
                self.assign(s.target, item, scope, func)
                try:
                    self.exec_block(s.body, scope, func)
                except _Break:
                    broke = True
                    break
                except _Continue:
                    continue
            if not broke:
                self.exec_block(s.orelse, scope, func)
            return
        if isinstance(s, ast.While):
            n = 0
            while self.truth(s.test, scope, func):
                n += 1
                if n > 64:
                    raise Undecided('while loop bound')
                try:
                    self.exec_block(s.body, scope, func)
                except _Break:
                    break
                except _Continue:
                    continue
            return
        if isinstance(s, ast.Break):
            raise _Break()
        if isinstance(s, ast.Continue):
            raise _Continue()
        if isinstance(s, ast.Try):
            try:
                self.exec_block(s.body, scope, func)
            except PyRaise as e:
                for h in s.handlers:
                    names = []
                    if h.type is None:
                        names = None
                    elif isinstance(h.type, ast.Tuple):
                        names = [ast.unparse(x) for x in h.type.elts]
                    else:
                        names = [ast.unparse(h.type)]
                    if names is None or e.name in names or \
                            'Exception' in names:
                        self.exec_block(h.body, scope, func)
                        break
                else:
                    self.exec_block(s.finalbody, scope, func)
                    raise
            else:
                self.exec_block(s.orelse, scope, func)
            self.exec_block(s.finalbody, scope, func)
            return
        if isinstance(s, ast.With):
            gens = []
            for it in s.items:
                v = self.ev(it.context_expr, scope, func)
                if isinstance(v, GenV):
                    g = v
                    v = self.cm_enter(g)
                    gens.append(g)
                if it.optional_vars is not None:
                    self.assign(it.optional_vars, v, scope, func)
            try:
                self.exec_block(s.body, scope, func)
            except PyRaise as e:
                for g in reversed(gens):
                    if self.cm_exit(g, e):
                        e = None
                        break
                if e is not None:
                    raise
            except (_Return, _Break, _Continue):
                for g in reversed(gens):
                    self.cm_exit(g)
                raise
            else:
                for g in reversed(gens):
                    self.cm_exit(g)
            return
        if isinstance(s, ast.Delete):
            return
        raise Undecided('statement %s' % type(s).__name__)

    def assign(self, t, v, scope, func):
        if isinstance(t, ast.Name):
            scope.set(t.id, v)
            return
        if isinstance(t, (ast.Tuple, ast.List)):
            v = self.seq(v)
            if not isinstance(v, (tuple, list)) or len(v) != len(t.elts):
                raise Undecided('tuple assignment of %r' % (v,))
            for tt, vv in zip(t.elts, v):
                self.assign(tt, vv, scope, func)
            return
        if isinstance(t, ast.Attribute):
            obj = self.ev(t.value, scope, func)
            if isinstance(obj, Inst):
                obj.attrs[self.mangle(t.attr, func)] = v
                return
            if isinstance(obj, (OpV, SpaceV)):
                obj.attrs[t.attr] = v
                return
            if isinstance(obj, Func) and t.attr in ('__doc__', '__name__',
                                                    '__qualname__'):
                return               # documentation of a generated function
            raise Undecided('attribute store on %r' % (obj,))
        if isinstance(t, ast.Subscript):
            obj = self.ev(t.value, scope, func)
            sl = t.slice
            if isinstance(obj, Vec) and (
                    (isinstance(sl, ast.Slice) and sl.lower is None
                     and sl.upper is None and sl.step is None)
                    or (isinstance(sl, ast.Constant)
                        and sl.value is Ellipsis)):
                if isinstance(v, Vec):
                    obj.val = dict(v.val)
                    obj.taint = set(v.taint)
                elif is_scalar(v):
                    obj.val = vs.scale(vs.sym('ONE'), to_rat(v))
                    obj.taint = set()
                else:
                    raise Undecided('slice assignment of %r' % (v,))
                return
            idx = self.ev(sl, scope, func) if not isinstance(sl, ast.Slice) \
                else slice(
                    self.ev(sl.lower, scope, func) if sl.lower else None,
                    self.ev(sl.upper, scope, func) if sl.upper else None,
                    self.ev(sl.step, scope, func) if sl.step else None)
            if isinstance(obj, SArr):
                if isinstance(idx, int):
                    try:
                        obj.items[idx] = v
                    except IndexError:
                        raise PyRaise('IndexError')
                    return
                if isinstance(idx, slice):
                    n = len(obj.items[idx])
                    vals = v.items if isinstance(v, SArr) else (
                        list(v) if isinstance(v, (list, tuple)) else [v] * n)
                    if len(vals) == 1 and n != 1:
                        vals = vals * n
                    if len(vals) != n:
                        # NumPy: could not broadcast input array
                        raise PyRaise('ValueError')
                    obj.items[idx] = vals
                    return
                if isinstance(idx, (list, SArr)):
                    ii = idx.items if isinstance(idx, SArr) else idx
                    if ii and all(isinstance(i, bool) for i in ii):
                        pos = [k for k, m in enumerate(ii) if m]
                    else:
                        pos = list(ii)
                    vals = v.items if isinstance(v, SArr) else (
                        list(v) if isinstance(v, (list, tuple))
                        else [v] * len(pos))
                    if len(vals) != len(pos):
                        raise Undecided('fancy store of %d values into %d '
                                        'entries' % (len(vals), len(pos)))
                    for k, val in zip(pos, vals):
                        obj.items[k] = val
                    return
                raise Undecided('array store index %r' % (idx,))
            if isinstance(obj, PVec) and isinstance(idx, int):
                self.assign_into(obj.parts[idx], v)
                return
            if isinstance(obj, list) and isinstance(idx, int):
                obj[idx] = v
                return
            if isinstance(obj, dict):
                obj[idx] = v
                return
            if isinstance(obj, Inst):
                hit = self.model.lookup(obj.ci, '__setitem__')
                if hit is not None and hit[1] is not None:
                    dc, m = hit
                    self.call_func(Func(m, self.method_env(obj, dc), dc),
                                   [idx, v], {}, obj)
                    return
            raise Undecided('subscript store %s' % ast.unparse(t))
        raise Undecided('assignment target %s' % ast.unparse(t))

    def augassign(self, s, scope, func):
        cur = self.ev(s.target, scope, func) if not isinstance(
            s.target, ast.Name) else scope.get(s.target.id, self)
        v = self.ev(s.value, scope, func)
        if isinstance(cur, Vec):
            if self.hooks is not None:
                self.hooks.on_augassign(self, s, cur, v)
            # in-place element arithmetic
            if isinstance(s.op, ast.Add):
                self.inplace_add(cur, v, 1)
                if isinstance(v, Vec):
                    cur.taint |= v.taint
            elif isinstance(s.op, ast.Sub):
                self.inplace_add(cur, v, -1)
                if isinstance(v, Vec):
                    cur.taint |= v.taint
            elif isinstance(s.op, (ast.Mult, ast.Div)) and isinstance(
                    v, Vec) and self.hooks is not None and isinstance(
                        self.hooks.on_binop(self, type(s.op), cur, v), Vec):
                # a model with its own pointwise product (e.g. the 1-d line)
                cur.val = dict(self.hooks.on_binop(self, type(s.op), cur,
                                                   v).val)
            elif isinstance(s.op, ast.Mult):
                if is_scalar(v):
                    if self.scalar_is_zero(to_rat(v)):
                        cur.taint |= set(cur.val)
                    cur.val = vs.scale(cur.val, to_rat(v))
                else:
                    cur.val = vs.mul(cur.val, self.vec_val(v))
            elif isinstance(s.op, ast.Div):
                if is_scalar(v):
                    cur.val = vs.scale(cur.val, Rat.const(1) / to_rat(v))
                else:
                    cur.val = vs.div(cur.val, self.vec_val(v))
            elif isinstance(s.op, ast.Pow) and is_scalar(v):
                cur.val = vs.powv(cur.val, to_rat(v))
            else:
                raise Undecided('augmented %s on a vector' % type(
                    s.op).__name__)
            return
        if isinstance(cur, PVec):
            if isinstance(v, PVec) and isinstance(s.op, (ast.Add, ast.Sub)):
                for c, p in zip(cur.parts, v.parts):
                    self.inplace_add(c, p, 1 if isinstance(s.op, ast.Add)
                                     else -1)
                return
            if is_scalar(v) and isinstance(s.op, (ast.Mult, ast.Div)):
                sc = to_rat(v) if isinstance(s.op, ast.Mult) else \
                    Rat.const(1) / to_rat(v)
                self._scale_p(cur, sc)
                return
            raise Undecided('augmented assignment on a product element')
        r = self.binop(type(s.op), cur, v)
        self.assign(s.target, r, scope, func)

    def _scale_p(self, p, sc):
        for q in p.parts:
            if isinstance(q, PVec):
                self._scale_p(q, sc)
            else:
                q.val = vs.scale(q.val, sc)

    def inplace_add(self, cur, v, sign):
        if is_scalar(v):
            cur.val = vs.add(cur.val, vs.scale(vs.sym('ONE'), to_rat(v)),
                             sign)
        else:
            cur.val = vs.add(cur.val, self.vec_val(v), sign)

    # ---- conditions -------------------------------------------------------------
    def truth(self, node, scope, func):
        if isinstance(node, ast.BoolOp):
            if isinstance(node.op, ast.And):
                for v in node.values:
                    if not self.truth(v, scope, func):
                        return False
                return True
            for v in node.values:
                if self.truth(v, scope, func):
                    return True
            return False
        if isinstance(node, ast.UnaryOp) and isinstance(node.op, ast.Not):
            return not self.truth(node.operand, scope, func)
        v = self.ev(node, scope, func)
        return self.truth_value(v, node)

    def truth_value(self, v, node=None):
        if isinstance(v, bool):
            return v
        if type(v).__name__ in ('bool_', 'bool'):      # numpy.bool_
            return bool(v)
        if v is None:
            return False
        if isinstance(v, (int, float, Fr)):
            return v != 0
        if isinstance(v, (list, tuple, dict, str)):
            return len(v) > 0
        if isinstance(v, Rat):
            if v.is_const():
                return v.constant() != 0
            return self.decide('nonzero:%r' % (v,), node)
        if isinstance(v, _Cond):
            if v.key.startswith('not:'):
                return not self.decide_cond(_Cond(v.key[4:], v.rat), node)
            return self.decide_cond(v, node)
        if isinstance(v, (Vec, PVec, Inst, OpV, SpaceV, Func, Bound,
                          ClassV, Builtin)):
            return True
        if isinstance(v, Opaque):
            return self.decide_cond(_Cond('opaque:%s:%s' % (
                v.desc, ast.unparse(node) if node is not None else '')),
                node)
        raise Undecided('truth value of %r' % (v,))

    # ---- expressions -----------------------------------------------------------
    def ev(self, n, scope, func):
        if isinstance(n, ast.Constant):
            v = n.value
            if isinstance(v, float):
                return Rat.const(Fr(repr(v))) if v == v and abs(v) != \
                    float('inf') else Opaque('float:%r' % v)
            return v
        if isinstance(n, ast.Name):
            if n.id == 'NotImplemented':
                return NI
            if n.id == 'Ellipsis' and not scope.has('Ellipsis'):
                return Ellipsis
            return scope.get(n.id, self)
        if isinstance(n, ast.Attribute):
            if isinstance(n.value, ast.Call) and isinstance(
                    n.value.func, ast.Name) and n.value.func.id == 'super' \
                    and not scope.has('super'):
                return self.super_attr(n, scope, func)
            obj = self.ev(n.value, scope, func)
            return self.getattr_value(obj, n.attr, func)
        if isinstance(n, ast.Call):
            return self.ev_call(n, scope, func)
        if isinstance(n, ast.BinOp):
            l = self.ev(n.left, scope, func)
            r = self.ev(n.right, scope, func)
            return self.binop(type(n.op), l, r)
        if isinstance(n, ast.UnaryOp):
            if isinstance(n.op, ast.Not):
                return not self.truth(n.operand, scope, func)
            v = self.ev(n.operand, scope, func)
            if isinstance(n.op, ast.USub):
                return self.binop(ast.Mult, -1, v)
            if isinstance(n.op, ast.UAdd):
                return v
            if isinstance(n.op, ast.Invert) and getattr(
                    v, 'is_array_value', False):
                return self.invert_array(v)
        if isinstance(n, ast.BoolOp):
            # value semantics of and/or
            last = None
            for v in n.values:
                last = self.ev(v, scope, func)
                t = self.truth_value(last, v)
                if isinstance(n.op, ast.And) and not t:
                    return last
                if isinstance(n.op, ast.Or) and t:
                    return last
            return last
        if isinstance(n, ast.Compare):
            return self.compare(n, scope, func)
        if isinstance(n, ast.IfExp):
            if self.truth(n.test, scope, func):
                return self.ev(n.body, scope, func)
            return self.ev(n.orelse, scope, func)
        if isinstance(n, ast.Tuple):
            return tuple(self._elts(n.elts, scope, func))
        if isinstance(n, ast.List):
            return list(self._elts(n.elts, scope, func))
        if isinstance(n, ast.Dict):
            return {self.ev(k, scope, func): self.ev(v, scope, func)
                    for k, v in zip(n.keys, n.values)}
        if isinstance(n, ast.Subscript):
            obj = self.ev(n.value, scope, func)
            return self.subscript(obj, n.slice, scope, func)
        if isinstance(n, ast.Slice):
            return slice(
                self.ev(n.lower, scope, func) if n.lower else None,
                self.ev(n.upper, scope, func) if n.upper else None,
                self.ev(n.step, scope, func) if n.step else None)
        if isinstance(n, ast.Lambda):
            return Func(n, scope, func.ci if func else None)
        if isinstance(n, (ast.ListComp, ast.GeneratorExp, ast.SetComp)):
            r = self.comprehension(n, scope, func)
            return _uniq(r) if isinstance(n, ast.SetComp) else r
        if isinstance(n, ast.DictComp):
            if len(n.generators) != 1:
                raise Undecided('nested comprehension')
            g = n.generators[0]
            it = self.ev(g.iter, scope, func)
            if isinstance(it, PVec):
                it = it.parts
            out = {}
            sub = _Scope(scope)
            for item in it:
                self.assign(g.target, item, sub, func)
                if all(self.truth(c, sub, func) for c in g.ifs):
                    out[self.ev(n.key, sub, func)] = self.ev(n.value, sub,
                                                             func)
            return out
        if isinstance(n, ast.Set):
            return _uniq(self._elts(n.elts, scope, func))
        if isinstance(n, ast.JoinedStr):
            return '<fstring>'
        if isinstance(n, ast.Starred):
            raise Undecided('starred expression')
        raise Undecided('expression %s' % type(n).__name__)

    def seq(self, v):
        """Python-level iteration of a model value."""
        if isinstance(v, PVec):
            return v.parts
        if isinstance(v, SArr):
            return v.items
        mi = getattr(v, 'model_iter', None)
        if mi is not None:
            return mi()
        return v

    def _elts(self, elts, scope, func):
        out = []
        for e in elts:
            if isinstance(e, ast.Starred):
                v = self.seq(self.ev(e.value, scope, func))
                out.extend(v)
            else:
                out.append(self.ev(e, scope, func))
        return out

    def comprehension(self, n, scope, func):
        if len(n.generators) != 1:
            raise Undecided('nested comprehension')
        g = n.generators[0]
        it = self.seq(self.ev(g.iter, scope, func))
        if not isinstance(it, (list, tuple, range)):
            raise Undecided('comprehension over %r' % (it,))
        out = []
        sub = _Scope(scope)
        for item in it:
            self.assign(g.target, item, sub, func)
            if all(self.truth(c, sub, func) for c in g.ifs):
                out.append(self.ev(n.elt, sub, func))
        return out

    def subscript(self, obj, sl, scope, func):
        if isinstance(obj, Vec):
            if (isinstance(sl, ast.Slice) and sl.lower is None
                    and sl.upper is None and sl.step is None) or (
                        isinstance(sl, ast.Constant)
                        and sl.value is Ellipsis):
                return obj
            raise Undecided('indexing a vector')
        idx = self.ev(sl, scope, func) if not isinstance(sl, ast.Slice) \
            else slice(
                self.ev(sl.lower, scope, func) if sl.lower else None,
                self.ev(sl.upper, scope, func) if sl.upper else None,
                self.ev(sl.step, scope, func) if sl.step else None)
        if self.hooks is not None:
            r = self.hooks.on_subscript(self, obj, idx)
            if r is not NotImplemented:
                return r
        if isinstance(obj, Opaque):
            return Opaque(obj.desc + '[]')
        if isinstance(obj, Rec) and callable(obj.attrs.get('__getitem__')):
            return obj.attrs['__getitem__'](idx)
        if isinstance(obj, SArr):
            try:
                if isinstance(idx, slice):
                    return SArr(obj.items[idx])
                if isinstance(idx, int):
                    v = obj.items[idx]
                    if v is None:
                        raise Undecided('read of an undefined array entry')
                    return v
                if isinstance(idx, (list, SArr)):
                    ii = idx.items if isinstance(idx, SArr) else idx
                    if ii and all(isinstance(i, bool) for i in ii):
                        if len(ii) != len(obj.items):
                            raise Undecided('mask length')
                        return SArr([v for v, m in zip(obj.items, ii) if m])
                    try:
                        return SArr([obj.items[i] for i in ii])
                    except IndexError:
                        raise PyRaise('IndexError')
            except IndexError:
                raise PyRaise('IndexError')
            raise Undecided('array index %r' % (idx,))
        if isinstance(obj, PVec):
            if isinstance(idx, int):
                return obj.parts[idx]
            raise Undecided('slicing a product element')
        if isinstance(obj, SpaceV) and obj.parts is not None and isinstance(
                idx, int):
            return obj.parts[idx]
        if isinstance(obj, (list, tuple, str)):
            try:
                return obj[idx]
            except (IndexError, TypeError):
                raise PyRaise('IndexError')
        if isinstance(obj, dict):
            if idx in obj:
                return obj[idx]
            raise PyRaise('KeyError')
        raise Undecided('subscript of %r' % (obj,))

    def compare(self, n, scope, func):
        left = self.ev(n.left, scope, func)
        res = True
        for op, cn in zip(n.ops, n.comparators):
            right = self.ev(cn, scope, func)
            r = self.cmp1(op, left, right, n)
            if isinstance(r, SArr) and len(n.ops) == 1:
                return r
            if getattr(r, 'is_array_value', False):
                if len(n.ops) == 1:
                    return r            # elementwise comparison of arrays
                r = self.truth_value(r, n)
            if isinstance(r, _Cond):
                if len(n.ops) == 1:
                    return r
                r = self.truth_value(r, n)
            if not r:
                return False
            left = right
        return res

    def cmp1(self, op, l, r, node):
        if isinstance(op, ast.Is):
            return l is r or (l is None and r is None) or (
                isinstance(l, bool) and isinstance(r, bool) and l == r)
        if isinstance(op, ast.IsNot):
            return not self.cmp1(ast.Is(), l, r, node)
        if isinstance(op, (ast.In, ast.NotIn)):
            v = self.contains(r, l, node)
            if isinstance(v, _Cond):
                if isinstance(op, ast.NotIn):
                    return _Cond('not:' + v.key)
                return v
            return v if isinstance(op, ast.In) else not v
        if isinstance(op, (ast.Eq, ast.NotEq)):
            e = self.equal(l, r, node)
            if isinstance(e, _Cond):
                if isinstance(op, ast.NotEq):
                    k = e.key
                    return _NotCond(e)
                return e
            return e if isinstance(op, ast.Eq) else not e
        # ordering
        if isinstance(op, (ast.Lt, ast.LtE, ast.Gt, ast.GtE)) and any(
                isinstance(o, Opaque) and o.desc == 'np.nan' for o in (l, r)):
            return False            # every ordering test with nan is false
        if is_scalar(l) and is_scalar(r):
            a, b = to_rat(l), to_rat(r)
            d = a - b
            if d.is_const():
                c = d.constant()
                return {ast.Lt: c < 0, ast.LtE: c <= 0, ast.Gt: c > 0,
                        ast.GtE: c >= 0}[type(op)]
            return _Cond('%s:%r' % (type(op).__name__, d), d)
        # an infinity against a finite number (or the other infinity)
        def ext(v):
            if isinstance(v, Opaque) and v.desc in ('np.inf', '-np.inf'):
                return 1 if v.desc == 'np.inf' else -1
            if is_scalar(v) and not isinstance(v, Opaque):
                return 0
            return None
        el, er = ext(l), ext(r)
        if el is not None and er is not None and (el or er):
            c = el - er
            return {ast.Lt: c < 0, ast.LtE: c <= 0, ast.Gt: c > 0,
                    ast.GtE: c >= 0}[type(op)]
        if isinstance(l, Opaque) or isinstance(r, Opaque):
            return _Cond('cmp:%s' % ast.unparse(node))
        raise Undecided('comparison %s' % ast.unparse(node))

    def equal(self, l, r, node):
        if l is r:
            return True
        if isinstance(l, SArr) and is_scalar(r):
            return SArr([self.truth_value(self.equal(x, r, node), node)
                         for x in l.items])
        if is_scalar(l) and is_scalar(r):
            d = to_rat(l) - to_rat(r)
            if d.is_const():
                return d.constant() == 0
            return _Cond('eq0:%r' % (d,), d)
        for cls_ in (SpaceV, FieldV):
            if isinstance(l, cls_) or isinstance(r, cls_):
                return l == r if isinstance(l, cls_) and isinstance(
                    r, cls_) else False
        if l is None or r is None:
            return l is r
        if getattr(l, 'model_eq', False) or getattr(r, 'model_eq', False):
            # model values with a decidable structural equality
            return bool(l == r)
        if isinstance(l, (str, bool, tuple)) or isinstance(r, (str, bool,
                                                                tuple)):
            try:
                return l == r
            except Exception:
                return False
        if isinstance(l, Inst) and isinstance(r, Inst):
            dc, m = self.model.lookup(l.ci, '__eq__')
            if not isinstance(m, ast.FunctionDef):
                return False            # object identity (l is not r here)
        if isinstance(l, slice) or isinstance(r, slice):
            if not (isinstance(l, slice) and isinstance(r, slice)):
                return False
            return all(self.truth_value(self.equal(a, b, node), node)
                       for a, b in zip((l.start, l.stop, l.step),
                                       (r.start, r.stop, r.step)))
        for a, b in ((l, r), (r, l)):
            if isinstance(a, Opaque) and a.desc in _NONFINITE:
                if is_scalar(b):
                    return False          # a finite number
                if isinstance(b, Opaque) and b.desc in _NONFINITE:
                    return a.desc == b.desc and 'nan' not in a.desc
        if isinstance(l, Opaque) or isinstance(r, Opaque):
            return _Cond('eq:%s' % (ast.unparse(node) if node is not None
                                    else '%r == %r' % (l, r)))
        raise Undecided('equality of %r and %r' % (l, r))

    def contains(self, container, item, node):
        if isinstance(container, SpaceV):
            return isinstance(item, (Vec, PVec)) and item.space == container
        if isinstance(container, FieldV):
            if is_scalar(item):
                return True
            return False
        if isinstance(container, (list, tuple, dict, str, range)):
            if isinstance(item, Opaque) and item.desc in _NONFINITE and \
                    isinstance(container, (list, tuple)):
                return any(isinstance(c, Opaque) and c.desc == item.desc
                           and 'nan' not in c.desc for c in container)
            try:
                return item in container
            except Exception:
                return False
        if container is None:
            raise PyRaise('TypeError')
        raise Undecided('membership in %r' % (container,))

    # arithmetic ----------------------------------------------------------------
    def binop(self, op, l, r):
        if self.hooks is not None:
            res = self.hooks.on_binop(self, op, l, r)
            if res is not NotImplemented:
                return res
        # an infinity plus / minus a finite number stays that infinity
        if op in (ast.Add, ast.Sub):
            inf_ = ('np.inf', '-np.inf')
            li = isinstance(l, Opaque) and l.desc in inf_
            ri = isinstance(r, Opaque) and r.desc in inf_
            if li and is_scalar(r) and not isinstance(r, Opaque):
                return l
            if ri and is_scalar(l) and not isinstance(l, Opaque):
                if op is ast.Add:
                    return r
                return Opaque('-np.inf' if r.desc == 'np.inf' else 'np.inf')
        # an infinity times / divided by a non-zero constant is an infinity
        if op in (ast.Mult, ast.Div):
            inf_ = ('np.inf', '-np.inf')
            for a_, b_ in ((l, r), (r, l)):
                if isinstance(a_, Opaque) and a_.desc in inf_ and \
                        is_scalar(b_) and not isinstance(b_, Opaque) and \
                        to_rat(b_).is_const() and (a_ is l or op is ast.Mult):
                    c_ = to_rat(b_).constant()
                    if c_ == 0:
                        return Opaque('np.nan')
                    pos = (c_ > 0) == (a_.desc == 'np.inf')
                    return Opaque('np.inf' if pos else '-np.inf')
        if (isinstance(l, Opaque) and (is_scalar(r) or isinstance(
                r, Opaque))) or (isinstance(r, Opaque) and is_scalar(l)):
            if not ((isinstance(l, Opaque) and l.desc == 'np.nan') or (
                    isinstance(r, Opaque) and r.desc == 'np.nan')):
                return Opaque('arith')
        for o in (l, r):
            if isinstance(o, Opaque) and o.desc in ('np.nan',) and (
                    is_scalar(l) or is_scalar(r) or (
                        isinstance(l, Opaque) and isinstance(r, Opaque))):
                return o            # nan propagates through arithmetic
        if isinstance(l, (int, Fr)) and isinstance(r, (int, Fr)) \
                and not isinstance(l, bool) and not isinstance(r, bool):
            if op is ast.Add:
                return l + r
            if op is ast.Sub:
                return l - r
            if op is ast.Mult:
                return l * r
            if op is ast.Div:
                if r == 0:
                    raise PyRaise('ZeroDivisionError')
                q = Fr(l) / Fr(r)
                return Rat.const(q)
            if op is ast.FloorDiv:
                return l // r
            if op is ast.Mod:
                return l % r
            if op is ast.Pow:
                if r >= 0:
                    return l ** r
                return Rat.const(Fr(l) ** r)
        if is_scalar(l) and is_scalar(r) and op in (ast.FloorDiv, ast.Mod):
            a, b = to_rat(l), to_rat(r)
            if b.is_const() and b.constant().denominator == 1 and \
                    a.d.is_const():
                k = int(b.constant())
                p = a.n * (1 / a.d.constant())
                q, rem = {}, Fr(0)
                ok = True
                for m, c in p.t.items():
                    if m == ():
                        if c.denominator != 1:
                            ok = False
                        rem = c
                    elif c.denominator != 1 or int(c) % k != 0:
                        ok = False
                    else:
                        q[m] = Fr(int(c) // k)
                if ok:
                    from .ratfun import Poly
                    if op is ast.Mod:
                        return int(rem) % k
                    q[()] = Fr(int(rem) // k)
                    return Rat(Poly(q))
            raise Undecided('integer division of %r by %r' % (a, b))
        if is_scalar(l) and is_scalar(r):
            a, b = to_rat(l), to_rat(r)
            if op is ast.Add:
                return a + b
            if op is ast.Sub:
                return a - b
            if op is ast.Mult:
                return a * b
            if op is ast.Div:
                if b.is_zero():
                    raise PyRaise('ZeroDivisionError')
                return a / b
            if op is ast.Pow:
                if isinstance(r, int):
                    return a ** r
                if isinstance(r, Rat) and r.is_const() and \
                        r.constant().denominator == 1:
                    return a ** int(r.constant())
                return Rat.var(satom('pow', a, b))
            raise Undecided('scalar operator %s' % op.__name__)
        if isinstance(l, SArr) or isinstance(r, SArr):
            la = l.items if isinstance(l, SArr) else None
            ra = r.items if isinstance(r, SArr) else None
            def elem(a, b):
                # NumPy array division does not raise: 0 / 0 is nan
                if op is ast.Div and is_scalar(a) and is_scalar(b) and \
                        not isinstance(a, Opaque) and \
                        not isinstance(b, Opaque) and to_rat(b).is_zero():
                    if to_rat(a).is_zero():
                        return Opaque('np.nan')
                    raise Undecided('array entry %r / 0' % (a,))
                return self.binop(op, a, b)
            if la is not None and ra is not None:
                if len(la) != len(ra):
                    raise Undecided('array shapes %d, %d' % (len(la),
                                                              len(ra)))
                return SArr([elem(a, b) for a, b in zip(la, ra)])
            if la is not None:
                return SArr([elem(a, r) for a in la])
            return SArr([elem(l, b) for b in ra])
        lv, rv = isinstance(l, Vec), isinstance(r, Vec)
        if lv and rv:
            if op in (ast.Add, ast.Sub):
                res = Vec(vs.add(l.val, r.val, 1 if op is ast.Add else -1),
                          l.space)
                res.taint = set(l.taint) | set(r.taint)
                return res
            if op is ast.Mult:
                return Vec(vs.mul(l.val, r.val), l.space)
            if op is ast.Div:
                return Vec(vs.div(l.val, r.val), l.space)
        if lv and is_scalar(r):
            s = to_rat(r)
            if op is ast.Mult:
                return self._scaled(l, s)
            if op is ast.Div:
                return Vec(vs.scale(l.val, Rat.const(1) / s), l.space)
            if op is ast.Add:
                return Vec(vs.add(l.val, vs.scale(vs.sym('ONE'), s)), l.space)
            if op is ast.Sub:
                return Vec(vs.add(l.val, vs.scale(vs.sym('ONE'), s), -1),
                           l.space)
            if op is ast.Pow:
                return Vec(vs.powv(l.val, s), l.space)
        if rv and is_scalar(l):
            s = to_rat(l)
            if op is ast.Mult:
                return self._scaled(r, s)
            if op is ast.Add:
                return Vec(vs.add(r.val, vs.scale(vs.sym('ONE'), s)), r.space)
            if op is ast.Sub:
                return Vec(vs.add(vs.scale(vs.sym('ONE'), s), r.val, -1),
                           r.space)
            if op is ast.Div:
                return Vec(vs.div(vs.scale(vs.sym('ONE'), s), r.val), r.space)
        if isinstance(l, PVec) and isinstance(r, PVec) and op in (ast.Add,
                                                                  ast.Sub):
            return PVec([self.binop(op, a, b)
                         for a, b in zip(l.parts, r.parts)], l.space)
        if isinstance(l, PVec) and is_scalar(r) and op in (ast.Mult,
                                                           ast.Div):
            return PVec([self.binop(op, a, r) for a in l.parts], l.space)
        if isinstance(r, PVec) and is_scalar(l) and op is ast.Mult:
            return PVec([self.binop(op, l, a) for a in r.parts], r.space)
        if isinstance(l, (list, tuple)) and isinstance(r, (list, tuple)) \
                and op is ast.Add:
            return l + r
        if isinstance(l, (list, tuple)) and isinstance(r, int) and \
                op is ast.Mult:
            return l * r
        if isinstance(r, (list, tuple)) and isinstance(l, int) and \
                op is ast.Mult:
            return r * l
        if op is ast.Mult and (
                (isinstance(l, (list, tuple)) and isinstance(r, Rat)) or
                (isinstance(r, (list, tuple)) and isinstance(l, Rat))):
            # sequence times a number: repetition for an integer, TypeError
            # for any other real number (Python semantics, a Rat constant
            # with integral value standing for the int)
            seq, num = (l, r) if isinstance(l, (list, tuple)) else (r, l)
            if num.is_const():
                c = num.constant()
                if c.denominator == 1:
                    return seq * int(c)
                raise PyRaise('TypeError')
        if isinstance(l, str) and op is ast.Mod:
            return l
        if isinstance(l, str) and isinstance(r, str) and op is ast.Add:
            return l + r
        _native = (str, list, tuple, dict, type(None))
        if isinstance(l, _native) and isinstance(r, _native):
            # Python itself rejects the remaining combinations
            raise PyRaise('TypeError')
        if isinstance(l, (bool, _np_bool)) and isinstance(r, (bool, _np_bool)) \
                and op in (ast.BitOr, ast.BitAnd, ast.BitXor):
            l, r = bool(l), bool(r)
            return {ast.BitOr: l | r, ast.BitAnd: l & r,
                    ast.BitXor: l ^ r}[op]
        raise Undecided('operator %s on %r, %r' % (op.__name__, l, r))

    def scalar_is_zero(self, r):
        return r.is_zero()

    def _scaled(self, v, s):
        """s * v as a fresh vector; multiplying by a zero scalar *reads* v
        (0 * NaN = NaN), which is recorded as taint."""
        res = Vec(vs.scale(v.val, s), v.space)
        res.taint = set(v.taint)
        if self.scalar_is_zero(s):
            res.taint |= set(v.val)
        return res

    def super_attr(self, n, scope, func):
        """`super(C, self).name` as a value: a property of a base class is
        evaluated, a method is bound."""
        selfv = scope.get('self', self)
        if func is None or func.ci is None or not isinstance(selfv, Inst):
            raise Undecided('super() attribute outside a method')
        mro = self.model.mro(selfv.ci)
        names = [c.name for c in mro]
        if func.ci.name not in names:
            raise Undecided('super(): class not in MRO')
        for c in mro[names.index(func.ci.name) + 1:]:
            if n.attr in c.methods:
                m = c.methods[n.attr]
                f = Func(m, self.method_env(selfv, c), c)
                if c.is_property(n.attr):
                    return self.call_func(f, [], {}, selfv)
                return Bound(f, selfv)
        raise PyRaise('AttributeError', n)

    # calls -----------------------------------------------------------------------
    def ev_call(self, n, scope, func):
        f = n.func
        # super(C, self).m(...)
        if isinstance(f, ast.Attribute) and isinstance(f.value, ast.Call) \
                and isinstance(f.value.func, ast.Name) and \
                f.value.func.id == 'super':
            selfv = scope.get('self', self)
            if func is None or func.ci is None or not isinstance(
                    selfv, (Inst, OpV)):
                raise Undecided('super() outside a method')
            if isinstance(selfv, OpV):
                base = 'Functional' if (selfv.functional and 'Functional'
                                        in self.model.classes) else 'Operator'
                mro = self.model.mro(self.model.get(base))
            else:
                mro = self.model.mro(selfv.ci)
            names = [c.name for c in mro]
            if func.ci.name not in names:
                raise Undecided('super(): class not in MRO')
            i = names.index(func.ci.name)
            target = None
            for c in mro[i + 1:]:
                if f.attr in c.methods:
                    target = (c, c.methods[f.attr])
                    break
            args, kwargs = self.ev_args(n, scope, func)
            if self.hooks is not None:
                r = self.hooks.on_super(self, selfv, func.ci, f.attr, args,
                                        kwargs, target)
                if r is not NotImplemented:
                    return r
            if target is None:
                if f.attr == '__init__':
                    return None
                raise Undecided('super().%s does not resolve' % f.attr)
            c, m = target
            return self.call_func(Func(m, self.env_of(c.rel), c), args,
                                  kwargs, selfv)
        if isinstance(f, ast.Name) and f.id == 'isinstance' and \
                len(n.args) == 2 and not scope.has(f.id):
            return self.isinstance(self.ev(n.args[0], scope, func),
                                   n.args[1], scope, func)
        if isinstance(f, ast.Name) and f.id in _PY_BUILTINS and \
                not scope.has(f.id):
            args, kwargs = self.ev_args(n, scope, func)
            if self.hooks is not None:
                ov = self.hooks.on_name(self, f.id)
                if ov is not NotImplemented:
                    return self.call(ov, args, kwargs, n)
            return self.py_builtin(f.id, args, kwargs, n, scope, func)
        callee = self.ev(f, scope, func)
        args, kwargs = self.ev_args(n, scope, func)
        return self.call(callee, args, kwargs, n)

    def ev_args(self, n, scope, func):
        args = self._elts(n.args, scope, func)
        kwargs = {}
        for k in n.keywords:
            if k.arg is None:
                d = self.ev(k.value, scope, func)
                if not isinstance(d, dict):
                    raise Undecided('**%r' % (d,))
                kwargs.update(d)
            else:
                kwargs[k.arg] = self.ev(k.value, scope, func)
        return args, kwargs

    def py_builtin(self, name, args, kwargs, node, scope, func):
        if name == 'isinstance':
            return self.isinstance(args[0], node.args[1], scope, func)
        if name == 'getattr':
            try:
                return self.getattr_value(args[0], args[1], func)
            except (PyRaise, Undecided):
                if len(args) > 2:
                    return args[2]
                raise
        if name == 'hasattr':
            try:
                self.getattr_value(args[0], args[1], func)
                return True
            except (PyRaise, Undecided):
                return False
        if name == 'len':
            v = args[0]
            if isinstance(v, PVec):
                return len(v.parts)
            if isinstance(v, SArr):
                return len(v.items)
            if isinstance(v, SpaceV) and v.parts is not None:
                return len(v.parts)
            if isinstance(v, (list, tuple, dict, str, range)):
                return len(v)
            if hasattr(type(v), '__len__'):
                return len(v)
            if isinstance(v, Inst):
                dc, m = self.model.lookup(v.ci, '__len__')
                if isinstance(m, ast.FunctionDef):
                    return self.call_func(
                        Func(m, self.method_env(v, dc), dc), [], {}, v)
                raise PyRaise('TypeError', node)
            raise Undecided('len(%r)' % (v,))
        if name == 'int':
            v = args[0]
            if isinstance(v, int):
                return v
            if isinstance(v, Rat) and v.is_const() and \
                    v.constant().denominator == 1:
                return int(v.constant())
            if isinstance(v, Rat) and not v.is_const():
                return v        # a symbolic count: integral by assumption
            if isinstance(v, (tuple, list, dict)) or v is None:
                raise PyRaise('TypeError')
            arr = getattr(v, 'a', None)
            if arr is not None and getattr(arr, 'size', 0) == 1:
                # a NumPy scalar / one-element array
                return self.py_builtin('int', [arr.ravel()[0]], {}, node,
                                       scope, func)
            raise Undecided('int(%r)' % (v,))
        if name == 'float' or name == 'complex':
            v = args[0]
            if is_scalar(v):
                return to_rat(v)
            if isinstance(v, Opaque):
                return v
            if isinstance(v, str):
                return Opaque('float:' + v)
            raise Undecided('float(%r)' % (v,))
        if name == 'range':
            if all(isinstance(a, int) for a in args):
                return list(range(*args))
            raise Undecided('range of symbolic bound')
        if name == 'next':
            it = args[0]
            if isinstance(it, PyIter):
                if it.pos < len(it.items):
                    it.pos += 1
                    return it.items[it.pos - 1]
                if len(args) > 1:
                    return args[1]
                raise PyRaise('StopIteration', node)
            raise Undecided('next(%r)' % (it,))
        if name == 'groupby':
            # itertools.groupby: runs of consecutive items with equal keys
            items = list(self.seq(args[0]))
            keyf = args[1] if len(args) > 1 else kwargs.get('key')
            groups = []
            for it in items:
                k = it if keyf is None else self.call(keyf, [it], {})
                if groups and self.truth_value(self.equal(groups[-1][0], k,
                                                          node), node):
                    groups[-1][1].append(it)
                else:
                    groups.append((k, [it]))
            return [(k, PyIter(g)) for k, g in groups]
        if name == 'zip':
            seqs = [self.seq(a) for a in args]
            return [tuple(t) for t in zip(*seqs)]
        if name == 'enumerate':
            a = self.seq(args[0])
            return [(i, v) for i, v in enumerate(a)]
        if name in ('tuple', 'list'):
            if not args:
                return () if name == 'tuple' else []
            a = self.seq(args[0])
            return tuple(a) if name == 'tuple' else list(a)
        if name == 'abs':
            v = args[0]
            if is_scalar(v):
                r = to_rat(v)
                if r.is_const():
                    return Rat.const(abs(r.constant()))
                return Rat.var(satom('abs', r))
        if name == 'callable':
            return isinstance(args[0], (Func, Bound, Builtin, OpV, ClassV,
                                        Inst))
        if name == 'type':
            v = args[0]
            if isinstance(v, Inst):
                return ClassV(v.ci)
            names = getattr(v, 'isinstance_names', None)
            if names:
                return TypeV(names[0])
            return Opaque('type')
        if name == 'str' or name == 'repr':
            return args[0] if args and isinstance(args[0], str) else '<str>'
        if name == 'map':
            f = args[0]
            seq = args[1].items if isinstance(args[1], SArr) else args[1]
            return [self.call(f, [v], {}) for v in seq]
        if name == 'slice':
            return slice(*args)
        if name == 'round':
            return args[0]
        if name == 'set':
            return _uniq(list(args[0])) if args else []
        if name == 'dict':
            return dict(args[0]) if args else dict(kwargs)
        if name in ('sorted', 'reversed'):
            a = list(args[0])
            return sorted(a) if name == 'sorted' else a[::-1]
        if name == 'all':
            return all(self.truth_value(v) for v in args[0])
        if name == 'any':
            return any(self.truth_value(v) for v in args[0])
        if name in ('max', 'min') and len(args) >= 1 and 'key' not in kwargs:
            vals_ = args[0] if len(args) == 1 else args
            vals_ = vals_.items if isinstance(vals_, SArr) else list(
                self.seq(vals_)) if not isinstance(
                    vals_, (list, tuple)) else vals_
            isnan = lambda v: isinstance(v, Opaque) and v.desc == 'np.nan'
            if vals_ and any(isnan(v) for v in vals_) and all(
                    isnan(v) or (is_scalar(v) and to_rat(v).is_const())
                    for v in vals_):
                # Python's max / min: the running value is replaced only
                # when a comparison with it is true, and every comparison
                # with NaN is false - a NaN that is not first is dropped
                cur = vals_[0]
                for v in vals_[1:]:
                    if isnan(cur) or isnan(v):
                        continue
                    a, b = to_rat(v).constant(), to_rat(cur).constant()
                    if (a > b) if name == 'max' else (a < b):
                        cur = v
                return cur
        if name in ('max', 'min') and len(args) >= 1:
            vals_ = args[0] if len(args) == 1 else args
            vals_ = vals_.items if isinstance(vals_, SArr) else vals_
            if all(is_scalar(v) and to_rat(v).is_const() for v in vals_) \
                    and not all(isinstance(v, int) for v in vals_):
                f = max if name == 'max' else min
                return Rat.const(f(to_rat(v).constant() for v in vals_))
            if all(is_scalar(v) for v in vals_) and len(vals_) > 0 and all(
                    to_rat(v) == to_rat(vals_[0]) for v in vals_):
                return vals_[0]
        if name in ('max', 'min') and len(args) >= 1:
            vals_ = args[0] if len(args) == 1 else args
            vals_ = vals_.items if isinstance(vals_, SArr) else vals_
            if len(vals_) >= 2 and all(is_scalar(v) for v in vals_) and \
                    not all(isinstance(v, int) for v in vals_):
                return Rat.var(satom(name, *[to_rat(v) for v in vals_]))
        if name in ('max', 'min') and len(args) == 1 and \
                'default' in kwargs and len(self.seq(args[0])) == 0:
            return kwargs['default']
        if name in ('max', 'min', 'sum'):
            vals = args[0] if len(args) == 1 else args
            if all(isinstance(v, int) for v in vals):
                return {'max': max, 'min': min, 'sum': sum}[name](vals)
            if name == 'sum' and all(is_scalar(v) for v in vals):
                t = Rat.const(0)
                for v in vals:
                    t = t + to_rat(v)
                return t
            if name == 'sum' and vals and len(args) == 1 and all(
                    isinstance(v, (Vec, PVec)) for v in vals):
                # 0 + v0 + v1 + ...: the start value 0 is absorbed by the
                # first element's __radd__ (x + 0 == x, property C01)
                t = vals[0]
                for v in vals[1:]:
                    t = self.binop(ast.Add, t, v)
                return t
        if name == 'bool':
            return self.truth_value(args[0], node)
        if name == 'print':
            return None
        if name == 'iter':
            if is_scalar(args[0]) or isinstance(args[0], bool) or \
                    args[0] is None:
                raise PyRaise('TypeError')
            return args[0]
        if name == 'id':
            return id(args[0])
        raise Undecided('builtin %s%r' % (name, tuple(args)))

    def isinstance(self, v, clsnode, scope, func):
        elts = clsnode.elts if isinstance(clsnode, ast.Tuple) else [clsnode]
        for e in elts:
            dynamic = not isinstance(e, (ast.Name, ast.Attribute)) or (
                isinstance(e, ast.Name) and scope is not None and
                scope.has(e.id) and e.id not in self.model.classes)
            if dynamic:
                # a computed class (type(self), a local tuple of types ...)
                for c in self._flat_types(self.ev(e, scope, func)):
                    if self._isinst_value(v, c):
                        return True
                continue
            if self._isinst1(v, ast.unparse(e).split('.')[-1]):
                return True
        return False

    def _flat_types(self, c):
        if isinstance(c, (tuple, list)):
            out = []
            for x in c:
                out.extend(self._flat_types(x))
            return out
        return [c]

    def _isinst_value(self, v, c):
        if isinstance(c, ClassV):
            return self._isinst1(v, c.ci.name)
        if isinstance(c, TypeV):
            return self._isinst1(v, c.name)
        if isinstance(c, Opaque) and c.desc.startswith('np.'):
            return self._isinst1(v, c.desc[3:])
        if isinstance(c, Builtin) and c.name in ('int', 'float', 'complex',
                                                 'str', 'bool', 'tuple',
                                                 'list', 'dict'):
            return self._isinst1(v, c.name)
        raise Undecided('isinstance(_, %r)' % (c,))

    def _isinst1(self, v, nm):
        names = getattr(v, 'isinstance_names', None)
        if names is not None:
            return nm in names
        if isinstance(v, Inst):
            return self.model.is_subclass(v.ci, nm) if nm in \
                self.model.classes else False
        if isinstance(v, (Vec, PVec)):
            if nm == 'ProductSpaceElement':
                return isinstance(v, PVec)
            return nm in ('LinearSpaceElement', 'Tensor', 'NumpyTensor',
                          'DiscretizedSpaceElement') and not (
                              nm != 'LinearSpaceElement'
                              and isinstance(v, PVec))
        if isinstance(v, OpV):
            if nm == 'Functional':
                return v.functional
            return nm == 'Operator'
        if isinstance(v, SpaceV):
            if nm == 'ProductSpace':
                return v.parts is not None
            return nm in ('LinearSpace', 'Set', 'TensorSpace')
        if isinstance(v, FieldV):
            return nm in ('Field', 'Set', 'RealNumbers' if v.kind == 'R'
                          else 'ComplexNumbers')
        if isinstance(v, slice):
            return nm == 'slice'
        if isinstance(v, Rec):
            return nm == v.kind
        if isinstance(v, SArr):
            return nm in ('ndarray',)
        if isinstance(v, bool):
            return nm in ('bool', 'int', 'Integral', 'Number')
        if isinstance(v, int):
            return nm in ('int', 'Integral', 'Number', 'Real', 'Complex')
        if isinstance(v, Rat) and 'I' in v.vars():
            # a complex number (imaginary unit symbol I)
            return nm in ('complex', 'Number', 'Complex')
        if isinstance(v, (Rat, Fr, float)):
            return nm in ('float', 'Number', 'Real', 'Complex')
        if isinstance(v, str):
            return nm in ('str', 'basestring')
        if isinstance(v, (list, tuple)):
            return nm == type(v).__name__
        if v is None:
            return False
        if isinstance(v, (Func, Bound, Builtin, ClassV)):
            return False
        if isinstance(v, dict):
            return nm == 'dict'
        raise Undecided('isinstance(%r, %s)' % (v, nm))


def _uniq(seq):
    out = []
    for v in seq:
        if not any(v is w or (type(v) is type(w) and v == w) for w in out):
            out.append(v)
    return out


class _Cond(object):
    """An undecided boolean with a stable key (forked when its truth value
    is needed)."""

    def __init__(self, key, rat=None):
        self.key = key
        self.rat = rat


def _NotCond(c):
    k = c.key
    return _Cond(k[4:] if k.startswith('not:') else 'not:' + k, c.rat)


class _Scope(object):
    def __init__(self, parent=None):
        self.vars = {}
        self.parent = parent

    def has(self, name):
        s = self
        while isinstance(s, _Scope):
            if name in s.vars:
                return True
            s = s.parent
        return isinstance(s, dict) and name in s

    def get(self, name, interp):
        s = self
        while isinstance(s, _Scope):
            if name in s.vars:
                return s.vars[name]
            s = s.parent
        if isinstance(s, dict):
            if name in s:
                return s[name]
            return interp.lookup_global(name, s)
        return interp.lookup_global(name, {})

    def set(self, name, v):
        self.vars[name] = v


class PyIter(object):
    """A Python iterator over known items (result of iter(), of a group of
    itertools.groupby ...): `next` and loops consume it."""

    def __init__(self, items):
        self.items = list(items)
        self.pos = 0

    def model_iter(self):
        rest = self.items[self.pos:]
        self.pos = len(self.items)
        return rest


class _Ufuncs(object):
    def __init__(self, interp, v):
        self.interp = interp
        self.v = v


_PY_BUILTINS = {'set', 'dict', 'sorted', 'reversed', 'slice', 'round', 'map',
                'isinstance', 'getattr', 'hasattr', 'len', 'int', 'float',
                'complex', 'range', 'zip', 'enumerate', 'tuple', 'list',
                'abs', 'callable', 'type', 'str', 'repr', 'all', 'any',
                'max', 'min', 'sum', 'bool', 'print', 'iter', 'id', 'next',
                'groupby'}


class Hooks(object):
    """Override points for rule modules; return NotImplemented to fall
    through to the default semantics."""

    def on_call(self, interp, f, args, kwargs, node):
        return NotImplemented

    def on_getattr(self, interp, obj, name):
        return NotImplemented

    def on_binop(self, interp, op, l, r):
        return NotImplemented

    def on_super(self, interp, selfv, cls, name, args, kwargs, target):
        return NotImplemented

    def on_decide(self, interp, cond, node):
        return NotImplemented

    def on_augassign(self, interp, stmt, cur, value):
        return None

    def on_name(self, interp, name):
        return NotImplemented

    def on_subscript(self, interp, obj, idx):
        return NotImplemented
