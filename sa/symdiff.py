"""E7c -- elementary functions of one variable as rational functions over
function atoms, with symbolic differentiation.  Used for the ufunc
derivative table (C06-R3) and detector surface derivatives (C19-R2)."""
from __future__ import annotations

import ast
from fractions import Fraction as Fr

from .core import Undecided
from .ratfun import Rat, Poly

T = Rat.var('t')
ATOMS = ('sin', 'cos', 'tan', 'exp', 'log', 'sqrt', 'sinh', 'cosh')


def A(name, arg='t'):
    return Rat.var((name, arg))


def value_of(name, arg='t'):
    """The function ``name`` evaluated at the variable, as a Rat."""
    t = Rat.var(arg)
    if name in ATOMS:
        return A(name, arg)
    if name == 'square':
        return t * t
    if name == 'reciprocal':
        return Rat.const(1) / t
    if name in ('identity', 'positive'):
        return t
    if name == 'negative':
        return -t
    return None


def d_atom(name, arg='t'):
    t = Rat.var(arg)
    if name == 'sin':
        return A('cos', arg)
    if name == 'cos':
        return -A('sin', arg)
    if name == 'tan':
        return Rat.const(1) + A('tan', arg) * A('tan', arg)
    if name == 'exp':
        return A('exp', arg)
    if name == 'log':
        return Rat.const(1) / t
    if name == 'sqrt':
        return Rat.const(Fr(1, 2)) / A('sqrt', arg)
    if name == 'sinh':
        return A('cosh', arg)
    if name == 'cosh':
        return A('sinh', arg)
    raise Undecided('no derivative rule for %s' % name)


def diff(r, arg='t'):
    """d/d(arg) of a Rat over function atoms of ``arg``."""
    tot = r.diff(arg)
    for v in r.vars():
        if isinstance(v, tuple) and len(v) == 2 and v[0] in ATOMS \
                and v[1] == arg:
            tot = tot + r.diff(v) * d_atom(v[0], arg)
    return tot


def relations(arg='t'):
    """Rewrite rules making normal forms canonical."""
    return {
        (('cos', arg), 2): Poly.const(1) - Poly.var(('sin', arg)) ** 2,
        (('cosh', arg), 2): Poly.const(1) + Poly.var(('sinh', arg)) ** 2,
        (('sqrt', arg), 2): Poly.var(arg),
    }


def normal(r, arg='t'):
    return r.reduce(relations(arg))


def equal(a, b, arg='t'):
    return normal(a, arg) == normal(b, arg)


def d_elementary(name):
    v = value_of(name)
    if v is None:
        return None
    return diff(v)


def parse_ufunc_expr(d, name):
    """Evaluate the argument of the ``MultiplyOperator(...)`` returned by a
    nested ``derivative(self, point)`` of the ufunc factory."""
    params = [a.arg for a in d.args.args]
    selfn, ptn = params[0], params[1]
    rets = [n for n in ast.walk(d) if isinstance(n, ast.Return)]
    if len(rets) != 1:
        raise Undecided('%d returns' % len(rets))
    e = rets[0].value
    if not (isinstance(e, ast.Call) and ast.unparse(e.func) ==
            'MultiplyOperator' and len(e.args) == 1):
        raise Undecided('does not return MultiplyOperator(<factor>)')

    def ev(n):
        if isinstance(n, ast.Constant) and isinstance(n.value, (int, float)):
            return Rat.const(Fr(repr(n.value)))
        if isinstance(n, ast.Name) and n.id == ptn:
            return T
        if isinstance(n, ast.UnaryOp) and isinstance(n.op, ast.USub):
            return -ev(n.operand)
        if isinstance(n, ast.BinOp):
            l, r = ev(n.left), ev(n.right)
            if isinstance(n.op, ast.Add):
                return l + r
            if isinstance(n.op, ast.Sub):
                return l - r
            if isinstance(n.op, ast.Mult):
                return l * r
            if isinstance(n.op, ast.Div):
                return l / r
            if isinstance(n.op, ast.Pow) and r.is_const() and \
                    r.constant().denominator == 1:
                return l ** int(r.constant())
        if isinstance(n, ast.Call):
            # self(point)
            if isinstance(n.func, ast.Name) and n.func.id == selfn and \
                    len(n.args) == 1 and ast.unparse(n.args[0]) == ptn:
                v = value_of(name)
                if v is None:
                    raise Undecided('self(point) for %s' % name)
                return v
            # g(self.domain)(point)
            if isinstance(n.func, ast.Call) and isinstance(
                    n.func.func, ast.Name) and len(n.args) == 1 and \
                    ast.unparse(n.args[0]) == ptn:
                v = value_of(n.func.func.id)
                if v is None:
                    raise Undecided('function %s' % n.func.func.id)
                return v
        raise Undecided('factor expression %s' % ast.unparse(n))
    return ev(e.args[0])


def equal_funcs(got, want):
    if equal(got, want):
        return True, repr(normal(want))
    return False, (repr(normal(got)), repr(normal(want)))
