"""Path enumeration over a function body (syntax-directed, no CFG library).

``walk_paths(stmts, decide)`` yields every path as a list of events:

* ``('stmt', node)``       a simple statement executed on the path
* ``('assume', test, bool)`` a branch decision (test is the ast node)
* ``('enter', node)`` / ``('leave', node)`` for ``for``/``while``/``with``
* terminal: ``('return', node)``, ``('raise', node)``, ``('fall', None)``

``decide(test, events)`` returns True / False to prune, or None to explore
both arms.  Boolean operators in tests are *not* split here; callers that need
atom-level partitioning use ``split_atoms``.

Loops: the body is explored zero and one time (``loop_modes``), ``break`` and
``continue`` end the body.  ``try``: the body is followed by ``else`` and
``finally``; every handler is additionally explored as an alternative
continuation from the start of the ``try`` (over-approximation of where the
exception happens).
"""
from __future__ import annotations

import ast

from .core import Undecided

SIMPLE = (ast.Expr, ast.Assign, ast.AugAssign, ast.AnnAssign, ast.Pass,
          ast.Import, ast.ImportFrom, ast.Assert, ast.Delete, ast.Global,
          ast.Nonlocal, ast.FunctionDef, ast.ClassDef)


class _Limit(Exception):
    pass


def walk_paths(stmts, decide=None, limit=20000, loop_modes=(0, 1),
               with_handlers=True):
    count = [0]
    out = []

    def seq(stmts, events, k):
        """Explore ``stmts`` then call continuation ``k(events)``."""
        if not stmts:
            return k(events)
        s, rest = stmts[0], stmts[1:]

        def cont(ev):
            return seq(rest, ev, k)
        if isinstance(s, SIMPLE):
            return cont(events + [('stmt', s)])
        if isinstance(s, ast.Return):
            return done(events + [('return', s)])
        if isinstance(s, ast.Raise):
            return done(events + [('raise', s)])
        if isinstance(s, ast.If):
            d = decide(s.test, events) if decide else None
            for val in ((True, False) if d is None else (d,)):
                seq(s.body if val else s.orelse,
                    events + [('assume', s.test, val)], cont)
            return
        if isinstance(s, (ast.For, ast.While)):
            for mode in loop_modes:
                if mode == 0:
                    seq(s.orelse, events + [('enter', s), ('leave', s)],
                        cont)
                else:
                    def after_body(ev, s=s):
                        return seq(s.orelse, ev + [('leave', s)], cont)
                    try:
                        seq(s.body, events + [('enter', s)], after_body)
                    except _LoopExit as le:  # pragma: no cover
                        raise le
            return
        if isinstance(s, (ast.Break, ast.Continue)):
            # end of the loop body on this path: unwind to the loop's
            # continuation -- handled by treating as end of body
            return k(events + [('stmt', s)])
        if isinstance(s, ast.With):
            def after(ev, s=s):
                return cont(ev + [('leave', s)])
            return seq(s.body, events + [('enter', s)], after)
        if isinstance(s, ast.Try):
            def after_body(ev, s=s):
                return seq(s.orelse + s.finalbody, ev, cont)
            seq(s.body, events, after_body)
            if with_handlers:
                for h in s.handlers:
                    seq(h.body + s.finalbody,
                        events + [('assume', h, True)], cont)
            return
        raise Undecided('statement kind %s' % type(s).__name__)

    def done(events):
        count[0] += 1
        if count[0] > limit:
            raise Undecided('more than %d paths' % limit)
        out.append(events)

    def fall(events):
        done(events + [('fall', None)])

    seq(list(stmts), [], fall)
    return out


class _LoopExit(Exception):
    pass


def split_atoms(test):
    """Flatten a boolean test into its atoms (and/or/not structure lost)."""
    if isinstance(test, ast.BoolOp):
        r = []
        for v in test.values:
            r.extend(split_atoms(v))
        return r
    if isinstance(test, ast.UnaryOp) and isinstance(test.op, ast.Not):
        return split_atoms(test.operand)
    return [test]


def eval_bool(test, atom_value):
    """Three-valued evaluation of a boolean test: ``atom_value(node)`` gives
    True / False / None for an atom."""
    if isinstance(test, ast.BoolOp):
        vals = [eval_bool(v, atom_value) for v in test.values]
        if isinstance(test.op, ast.And):
            if any(v is False for v in vals):
                return False
            if all(v is True for v in vals):
                return True
            return None
        if any(v is True for v in vals):
            return True
        if all(v is False for v in vals):
            return False
        return None
    if isinstance(test, ast.UnaryOp) and isinstance(test.op, ast.Not):
        v = eval_bool(test.operand, atom_value)
        return None if v is None else (not v)
    return atom_value(test)


def strip_doc(body):
    if body and isinstance(body[0], ast.Expr) and isinstance(
            body[0].value, ast.Constant) and isinstance(
                body[0].value.value, str):
        return body[1:]
    return body
