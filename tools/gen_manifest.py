#!/usr/bin/env python3
"""Regenerate /verif/MANIFEST.json from the table below (run after adding a
rule module)."""
import json
import os

HERE = os.path.dirname(os.path.dirname(os.path.abspath(__file__)))

TB = ('CPython ast; the effect/kernel summaries listed in DESIGN.md section 1;'
      ' NumPy/BLAS/FFTW semantics of individual primitive calls; no '
      'repository code is executed')

CLAIMS = {
    'C13': dict(
        cat='proof', ref='DESIGN.md section 3, C13',
        tech='abstract interpretation of slice code to exact stencil '
             'matrices (affine forms over Fraction) + constructor-argument '
             'role comparison',
        text='For all 30 (method, pad_mode) configurations and every length '
             'in the bound the exact matrix of finite_diff is extracted from '
             'the source and proved equal to the reference stencil of the '
             'named extension rule and to minus the transpose of the '
             'configuration named by the adjoint tables; the wiring of the '
             'four operator classes (linear flag, adjoint/derivative '
             'arguments, per-axis accumulation) is decided by symbolic '
             'evaluation.  This decides the property for all array contents,'
             ' which no sample-based test can.',
        note='Trusted: ' + TB + '. Lengths 2..9 (quick) / 2..16 (thorough);'
             ' larger n follow by translation invariance of the interior '
             'rows (stencil width <= 3).  N-d broadcasting through swapaxes '
             'and floating-point rounding are not decided.'),
    'C20': dict(
        cat='proof', ref='DESIGN.md section 3, C20',
        tech='equality/hash key extraction over the resolved class '
             'hierarchy (attribute sets, comparison modes, type tests through'
             ' super() chains), path rule for element() fast paths, '
             'data-dependency rule for derived-space constructors',
        text='For each of the 30 classes defining __eq__/__hash__ the key '
             'of __hash__ is proved to be a function of what __eq__ compares '
             '(attribute subset, value-vs-representation, broadcasting guard,'
             ' type component, hashability), __eq__ is proved reflexive, '
             'space membership is space equality, element() returns members '
             'unchanged on every path, and every derived-space constructor '
             'call forwards all identity-defining attributes.  These are '
             'statements about all instances, which pairwise tests on sampled'
             ' objects cannot give.',
        note='Trusted: ' + TB + '. Attribute == is assumed reflexive for the '
             'attribute types involved (NaN excepted).  Transitivity on '
             'floating-point data and array-like conversion of arbitrary '
             'inputs are not decided.'),
    'C03': dict(
        cat='proof', ref='DESIGN.md section 3, C03',
        tech='effect/alias dataflow per path over every Operator._call '
             '(typestate of the out buffer, write effects on the input), '
             'path rule over Operator.__call__',
        text='Every _call of every Operator subclass outside contrib '
             '(>100 definitions, closure classes included, inherited _call '
             're-analysed per subclass that overrides its helpers) is '
             'analysed path by path: no write effect reaches the input, the '
             'first effect on out is a full write so previous contents are '
             'never read, the in-place arm returns None or the object out '
             'and the out-of-place arm returns a value on every path; '
             'Operator.__call__ is proved to test/cast the domain, test out '
             'against the range, and check the returned identity on every '
             'path.  This covers all operator classes and all initial '
             'contents of out, which sampled calls cannot.',
        note='Trusted: ' + TB + '. Summaries (not inlined): finite_diff, '
             'resize_array, point_collocation, pyfftw_call, '
             'dft_pre/postprocess_data; third-party tomography back ends '
             'are exempt.  Two reviewed single-construct exceptions '
             '(ProximalHuber complementary masks, ProductSpaceOperator row '
             'bookkeeping).  Arm value equivalence (R5) and NaN-kill '
             'semantics of set_zero are covered only when the value-'
             'numbering rules are listed in the evidence.'),
    'C10': dict(
        cat='proof', ref='DESIGN.md section 3, C10',
        tech='read-after-write typestate under the alias assumption x is '
             'out (effect/alias dataflow with one shared cell)',
        text='For all 13 proximal operator classes, the proximal closure '
             'classes of the functionals, the ten operator-arithmetic '
             'classes and the default/product-space operators, the in-place '
             '_call is analysed with x and out bound to one cell: any read '
             'of the input through x after the first write is a violation '
             'unless x was rebound to a copy taken before.  Aliased solver '
             'call sites are enumerated and must resolve to such operators.'
             '  Decides the hazard for every input, not for sampled ones.',
        note='Trusted: ' + TB + '. Element-wise API calls read their '
             'operands before writing out within one call; lincomb is '
             'aliasing-safe (C01).  Operators whose domain differs from the '
             'range by construction are listed in NOT_ALIASABLE with the '
             'reason.  Reviewed exceptions: ProximalHuber masked writes, '
             'ProductSpaceOperator.'),
    'C04': dict(
        cat='proof', ref='DESIGN.md section 3, C04',
        tech='symbolic interpretation of the arithmetic dunders and of the '
             'expression classes own _call in the free vector-space algebra '
             '(value numbering, normal-form equality)',
        text='Every branch of Operator.__add__..__pow__, of '
             'OperatorRightScalarMult.__mul__, of Functional.__mul__/'
             '__rmul__/__add__/__sub__ and the scalar-merging constructors '
             'is evaluated for every operand sort x linearity x field; the '
             'returned object is applied to a symbolic x by interpreting '
             'its own _call (both arms) and must equal the documented table '
             'row as a normal form; linearity flag and domain are checked.  '
             'Correct nodes compose to correct trees by structural '
             'induction, which depth-bounded sampling cannot give.',
        note='Trusted: ' + TB + '. Leaf operators are uninterpreted symbols,'
             ' linear iff declared; element dunders defer to operator '
             'dunders via __array_priority__.'),
    'C05': dict(
        cat='other', ref='DESIGN.md section 3, C05',
        tech='symbolic interpretation of .adjoint and comparison with the '
             'formal adjoint obtained by moving the class denotation through'
             ' the inner product (normal-form equality); space tags; '
             'involution',
        text='Structural part of the property: for the operator-arithmetic '
             'classes, a nested expression and the hand-written scalar/'
             'multiplication/zero operators, over real and complex fields, '
             'the returned adjoint equals the formal adjoint of the class '
             'denotation for all operands, maps range to domain, and its own'
             ' adjoint acts like the operator.  Finite-difference adjoints '
             'are decided exactly by C13.  Adjoints depending on numerical '
             'kernels and weight bookkeeping (R6/R7) are not claimed unless '
             'listed in the evidence.',
        note='Trusted: ' + TB + '. Only the listed classes; see evidence '
             'per_rule and clauses_not_decided.'),
    'C06': dict(
        cat='other', ref='DESIGN.md section 3, C06',
        tech='symbolic interpretation of derivative(x) compared with '
             'symbolic differentiation of the class denotation; elementary-'
             'function derivative table by rational normal forms',
        text='Structural part: sum, chain (at the correct inner point), '
             'scalar/vector multiple and product rules of all operator-'
             'arithmetic classes (with and without user temporaries, linear '
             'and non-linear leaves, real and complex), default operators, '
             'PowerOperator closed form and the ufunc derivative table are '
             'decided for all operands as normal-form equalities; '
             'derivative(x) is linear and maps domain to range.',
        note='Trusted: ' + TB + '. Numerical convergence of difference '
             'quotients and array-masking derivatives are not decided.'),
    'C01': dict(
        cat='proof', ref='DESIGN.md section 3, C01',
        tech='symbolic interpretation of _lincomb_impl over the free '
             'vector-space algebra with exhaustive leaf enumeration '
             '(regime x aliasing x scalar class, guards solved or forked), '
             'finite-model evaluation of the BLAS guard, value numbering of '
             'the element dunders, argument-role rules for delegation',
        text='All 250 feasible leaves of the lincomb decision tree are '
             'proved to leave a*x1+b*x2 in out, to write no other operand '
             'and to be independent of stale out contents (including '
             '0*NaN); the BLAS guard is proved on a finite model; 90 dunder '
             'cases of LinearSpaceElement are proved to denote their '
             'operator, return fresh objects / self and leave operands '
             'untouched; product-space, discretized-space and tensor-space '
             'delegation keeps argument roles; lincomb/multiply/divide check'
             ' membership on every path.  This is for all element values and'
             ' all sizes in each regime, which sampling cannot cover.',
        note='Trusted: ' + TB + '; BLAS level-1 summaries scal/axpy/copy; '
             'ravel() of contiguous data is a view (guarded by R1b).  '
             'Rounding, strided overlap that is not object identity and '
             'same-type dunder dispatch in nested power spaces are not '
             'decided.'),
    'C11': dict(
        cat='translation_validation', ref='DESIGN.md section 3, C11',
        tech='symbolic interpretation of both members of each solver pair '
             'from a generic symbolic state and comparison of normal forms; '
             'n-then-m vs n+m resumption by the same interpretation; '
             'callback trace comparison',
        text='The three optimised/simple pairs (linearized ADMM, '
             'alternating dual updates, double-proximal DC) are interpreted '
             'for 1-3 iterations from symbolic x and symbolic dual '
             'variables with uninterpreted operators/proximals/gradients: '
             'iterates and state have equal normal forms.  Landweber, '
             'Kaczmarz, proximal gradient, MLEM/OSMLEM, steepest descent '
             'and PDHG (with x_relax, y passed back) are proved to resume '
             'exactly; 16 solver loops hand the callback exactly one current'
             ' iterate per (inner) iteration.  All problem instances are '
             'covered at once because operators and functionals are '
             'symbols.',
        note='Trusted: ' + TB + '. Equality is in the free vector-space '
             'algebra (exact arithmetic): rounding differences are outside. '
             'Iteration counts 1..3 from a generic state; random orderings '
             'are not covered.'),
    'C12': dict(
        cat='other', ref='DESIGN.md section 3, C12',
        tech='symbolic execution with forks on the decrease test (path '
             'rule), rational identities for default step sizes, alias '
             '(two names, one cell) dataflow over solver loops, structural '
             'unit-norm check of the power-method estimate',
        text='Four structural clauses only: the Armijo gate of the '
             'backtracking line search and its use by steepest descent; '
             'default step sizes of PDHG and Douglas-Rachford satisfy their '
             'admissibility products identically; saved iterates in solver '
             'loops are copies (known finding: forward_backward_pd); the '
             'power-method estimate is the norm of T applied to a '
             'normalised vector on every exit.  The numerical clauses of '
             'the property (monotone decrease, CG exactness, KKT, norm '
             'bound) are NOT decided: they quantify over real arithmetic.',
        note='Trusted: ' + TB + '. See clauses_not_decided in the '
             'evidence; the claim is limited to the four listed clauses.'),
    'C14': dict(
        cat='other', ref='DESIGN.md section 3, C14',
        tech='symbolic interpretation of the partition/grid code on '
             'symbolic coordinate vectors (exact rational identities), '
             'enumeration of index expressions and of the ordering cases of '
             'point location, finite-model evaluation of the normalisers',
        text='Cell boundaries, cell sizes and boundary fractions are proved '
             'for symbolic coordinates of every length in the bound; every '
             'arm of the four parameter-completion routines satisfies the '
             'tiling relation identically in min, max, n, dx for all four '
             'nodes-on-boundary cases; __getitem__ selects the boundaries '
             'of the chosen cells for several hundred index expressions on '
             'symbolic boundaries; index() is decided on all ordering cases;'
             ' the boundary-flag normaliser returns pairs on every path.',
        note='Trusted: ' + TB + '; np.searchsorted/linspace summaries.  '
             'isclose-based boundary detection, NumPy fancy-index semantics '
             'and floating-point ties are not decided; sub-partition '
             'constructors insert/append/squeeze are not covered.'),
    'C19': dict(
        cat='other', ref='DESIGN.md section 3, C19',
        tech='symbolic interpretation of the rotation-matrix code to '
             'polynomial matrices and reduction modulo cos^2+sin^2=1 / '
             '|axis|=1; symbolic differentiation of detector surfaces; '
             'einsum index evaluation; constructor-argument role rule; '
             'exact evaluation of factory formulas at rational witnesses',
        text='Rotation matrices are proved orthonormal with determinant one '
             'for ALL angles and unit axes (polynomial identities); the five'
             ' surface_deriv implementations are proved to be the derivative'
             ' of surface; det_point_position / det_to_src compositions are '
             'proved on symbolic matrices; geometry slicing forwards every '
             'constructor parameter; factory detector extents are refuted or'
             ' confirmed at exact witness points against an elementary-'
             'geometry oracle (known finding: cone/helical detector width).',
        note='Trusted: ' + TB + '. Broadcast/vectorised evaluation, Nyquist '
             'counts and the helical detector height are not decided; R5 is '
             'refutation at witness points, not a proof of coverage.'),
    'C18': dict(
        cat='other', ref='DESIGN.md section 3, C18',
        tech='symbolic interpretation of the reciprocal-grid and '
             'pre/post-processing formulas with parity case split (exact '
             'rational identities), cross-site agreement, kernel/'
             'normalisation comparison of the NumPy and pyFFTW arms by '
             'linear-form equality, constructor-argument role rule, '
             'read-after-destroy rule for the FFTW planner, guard '
             'consistency rule',
        text='All eight (shift, parity, halfcomplex) cases of the reciprocal'
             ' grid satisfy the stride identity and agree with the frequency'
             ' table of dft_postprocess_data and the phase of '
             'dft_preprocess_data identically in N and the stride; the two '
             'back-end arms of each transform class apply the same kernel '
             'direction and power of N for every admissible (sign, '
             'halfcomplex, field); inverse wiring forwards all options '
             '(Fourier and wavelet); the planner never runs destructively on'
             ' an array that is read afterwards; known finding: inconsistent'
             ' shift guards in dft_preprocess_data.',
        note='Trusted: ' + TB + '; np.fft normalisation conventions and the '
             'pyfftw_call(normalise_idft) summary.  Numerical agreement '
             'with numpy.fft/FFTW, the Gaussian convergence clause and the '
             'wavelet reconstruction clause are not decided (the latter is '
             'not applicable: a property of PyWavelets).'),
    'C07': dict(
        cat='other', ref='DESIGN.md section 3, C07',
        tech='abstract interpretation of the proximal calculus on a model '
             'family (weighted 1-d convex quadratics, exact rational '
             'functions) with an oracle independent of the code; binding '
             'table; attribute definedness',
        text='Partial claim: every proximal calculus rule (scaling, '
             'translation, quadratic perturbation, scalar sum, Bregman, '
             'Moreau/default conjugate, argument scaling, composition) and '
             'the affine proximals of the squared norm and its conjugate are'
             ' proved to return the exact minimiser for all parameters on '
             'the weighted quadratic model -- a necessary condition of the '
             'property that holds identically in a, b, sigma, w; each '
             'functional is bound to the factory of its own family; all '
             'attributes read by proximal operators resolve.',
        note='Trusted: ' + TB + '. Optimality of the non-smooth closed forms'
             ' (soft thresholding, projections, Lambert-W, simplex sort), '
             'weight consistency of non-quadratic proximals (F25) and the '
             'Huber proximal on product spaces (F26) are not decided.'),
    'C08': dict(
        cat='other', ref='DESIGN.md section 3, C08',
        tech='abstract interpretation of the conjugation rules on the '
             'weighted 1-d quadratic model with the exact conjugate as '
             'oracle; biconjugation; Moreau wiring',
        text='Partial claim: convex_conj of every derived functional class '
             'with a rule, of L2NormSquared and QuadraticForm takes exactly '
             'the values of the conjugate of the class denotation for all '
             'parameters; applying convex_conj twice restores the values; '
             'proximal_convex_conj is the proximal of the conjugate.',
        note='Trusted: ' + TB + '. Fenchel-Young for non-quadratic '
             'functionals and the pairing of norms/indicators are not '
             'decided; QuadraticForm only for symmetric operators.'),
    'C09': dict(
        cat='other', ref='DESIGN.md section 3, C09',
        tech='abstract interpretation of gradient rules on the weighted 1-d '
             'model against d/dt of the class denotation (Riesz '
             'representative); Lipschitz inequality refuted by rational '
             'witnesses; NumericalGradient evaluated on the model',
        text='Partial claim: the gradient of every derived functional '
             '(sum, scalar and vector multiples, translation, composition, '
             'product, quotient, quadratic perturbation, Bregman) and of the'
             ' quadratic built-ins equals the derivative of its own values '
             'divided by the weight, identically in all parameters; '
             'declared grad_lipschitz values are exact or dominate the true '
             'constant on a witness grid (under-estimates are refuted with '
             'the witness); the numerical gradient is the Riesz '
             'representative.',
        note='Trusted: ' + TB + '. Non-smooth points and functionals whose '
             'values are not interpretable on the line are not decided.'),
    'C16': dict(
        cat='other', ref='DESIGN.md section 3, C16',
        tech='symbolic interpretation of resize_array and its padding '
             'helpers on 1-d arrays with symbolic entries to exact matrices;'
             ' comparison with an oracle derived from the named boundary '
             'rule and with the transpose; rational identities for '
             '_resize_discr; constructor-argument and signature rules',
        text='For every pad mode, every pair of sizes up to the bound and '
             'every admissible offset the exact matrix of resize_array is '
             'extracted from the source: the forward matrix equals the '
             'boundary-rule oracle (overlapping block copied unchanged), the'
             ' adjoint-direction matrix is its transpose, cropping after '
             'extension is the identity -- for all array contents.  '
             '_resize_discr keeps the cell size and places the new domain '
             'by whole cells for all four boundary-node cases; '
             'ResizingOperator wiring and constructor signatures conform.',
        note='Trusted: ' + TB + '. One axis at a time (the per-axis loop is '
             'exercised for a single axis); several hundred (size, offset) '
             'configurations per mode; dtype casting and the weighted '
             'adjoint identity on non-uniformly weighted spaces are not '
             'decided.'),
    'C15': dict(
        cat='other', ref='DESIGN.md section 3, C15',
        tech='symbolic interpretation of the interpolator classes and public'
             ' factories on grids with symbolic nodes and node values, one '
             'evaluation per ordering case of each query coordinate with '
             'interval-wide decision of every comparison; dtype-kind '
             'abstract interpretation of the accumulation; value-capturing '
             'interpretation of the forwarding in Resampling, linear_deform '
             'and DiscretizedSpace.element; signature-class table of the '
             'callable inspection',
        text='For every ordering case of the query relative to the nodes '
             '(on a node, in either half of a cell, on the tie, just outside'
             ' the hull), in 1, 2 and 3 dimensions and for every per-axis '
             'scheme combination, the value computed by nearest_interpolator'
             ' / linear_interpolator / per_axis_interpolator (and the '
             'classes behind them, with and without out=) is, as a '
             'polynomial identity in node values and distances, the closest '
             'node value with ties to the right resp. the multilinear blend '
             'of the surrounding nodes -- hence node values are reproduced '
             'and linear interpolation is exact on affine functions for '
             'arbitrary non-uniform nodes.  Nearest-neighbour interpolation '
             'performs no arithmetic on the values; the out-of-place '
             'accumulation is closed for integer, float and complex values; '
             'Resampling, linear_deform and DiscretizedSpace.element hand '
             'the right values, nodes, points and keyword arguments to the '
             'interpolation / sampling helpers; the (has_out, out_optional) '
             'classification of callables is correct on all signature '
             'classes.  sampling_function / dual_use_func / '
             'point_collocation are interpreted on 2x2 meshes and 3-point '
             'arrays with symbolic coordinates for out-of-place, in-place, '
             'dual-use and vectorize-decorated callables that use all, one '
             'or no coordinate, take a keyword parameter, or are complex: '
             'the sampled array holds exactly the function values at the '
             'points (shape, dtype, out identity).',
        note='Trusted: ' + TB + '; NumPy shape semantics (indexing, '
             'broadcasting, reshape) are those of NumPy itself on object '
             'arrays with symbolic entries.  Not decided: arrays of '
             'callables (tensor-valued sampling), larger shapes than the '
             'small concrete ones, rounding.'),
    'C02': dict(
        cat='other', ref='DESIGN.md section 3, C02',
        tech='symbolic interpretation of the weighting classes, their '
             'helper pipelines, the base-class defaults and '
             'DiscretizedSpace._inner/_norm/_dist on small arrays with '
             'symbolic real / complex entries, weights and boundary '
             'fractions (NumPy shape semantics delegated to NumPy on object '
             'arrays); positivity-aware normal forms for |.|, roots and max;'
             ' equality of non-negative expressions by powers, refuted '
             'early at numeric witness points; value-capturing '
             'interpretation of forwarders and defaults',
        text='For exponents 2, 1, inf, 3 and 3/2, real and complex data, '
             '1-d and 2-d C-/F-ordered arrays, the BLAS and tensordot size '
             'arms, constant and per-entry weights: inner, norm and dist of '
             'the tensor-space and product-space weighting classes equal '
             'the documented weighted sums / p-norms as identities in all '
             'entries and weights; inner is conjugate-symmetric and linear '
             'in its first argument, norm is absolutely homogeneous and '
             'equals sqrt(inner) for p = 2, dist equals norm of the '
             'difference and is symmetric; inner is refused for p != 2 and '
             'non-positive constants / exponents are rejected.  On '
             'discretized spaces every boundary sample enters with its cell'
             ' fraction (corner cells with the product, for every finite p '
             'with the 1/p root, both operands of dist alike, operands '
             'unmodified), boundary_cell_fractions sums to the extent of '
             'the domain, and with the default cell-volume weighting of '
             'uniform_discr_frompartition the constant one has squared norm '
             'equal to the domain volume.  Space-level _inner/_norm/_dist '
             'and LinearSpace.inner/norm/dist forward their arguments in '
             'order.',
        note='Trusted: ' + TB + '; np.linalg.norm / dot / vdot / tensordot /'
             ' nrm2 by their definitions; positivity of weights and '
             'fractions.  Inequalities (positivity, Cauchy-Schwarz, '
             'triangle) follow from the verified closed form and are not '
             're-proved; custom callables and MatrixWeighting are not '
             'covered; floating-point agreement of BLAS and NumPy is not '
             'decided.'),
    'C17': dict(
        cat='other', ref='DESIGN.md section 3, C17',
        tech='symbolic interpretation of the __array_ufunc__ '
             'implementations, writable_array, the array protocol methods '
             'and the legacy ufuncs wrappers with an uninterpreted ufunc '
             'that follows the NumPy calling protocol on object arrays with '
             'symbolic entries; comparison with the same uninterpreted '
             'ufunc applied to the underlying arrays (oracle); memory-'
             'sharing and identity checks on the model values',
        text='For __call__ with one and two outputs, reduce (default, '
             'positive, negative, tuple and full axes, keepdims, dtype), '
             'accumulate, outer, at and reduceat, operands given as '
             'elements, arrays or scalars in either order, out given as '
             'element, tensor, ndarray or partly: the data behind the '
             'returned element are exactly what NumPy computes on the '
             'underlying arrays, the ufunc is invoked once on the '
             "operands' own data, a given out object is filled and "
             'returned, the result space has the class of the operand '
             'space and the shape and dtype of the NumPy result; '
             'discretized results live on the same partition, on the '
             'remaining axes after reduce (negative axes included) and on '
             'the appended partitions after outer; keepdims and reduceat '
             'are refused there, not ignored.  The legacy x.ufuncs.<name>() '
             'and sum/prod/min/max wrappers of tensors and product-space '
             'elements agree with the NumPy call; wrapping an array of '
             'matching dtype and shape shares memory, asarray() and '
             '__array__() do not copy, writable_array writes back on normal '
             'and exceptional exit.',
        note='Trusted: ' + TB + '; the NumPy ufunc dispatch protocol.  The '
             'ufunc itself is uninterpreted (its numbers and dtype tables '
             'are NumPy\'s); small concrete shapes; non-contiguous outs and '
             'the weighting propagation policy are not decided.'),
}

# additions of the evaluated tiers (DESIGN.md section 3), appended to the
# claim texts
EXTRA = {
    'C01': ' The BLAS guard is also interpreted on arrays with real NumPy '
           'dtypes (R1c); pointwise multiply / divide are evaluated on '
           'laid-out arrays in every aliasing pattern with arbitrary old '
           'output, where= masks treated as possibly false (R4L); copy() owns '
           'its buffer in every layout (R5L); the scalars reaching _lincomb '
           'keep their type (R4t); R4L also runs through the '
           'DiscretizedSpace wrappers; R4b evaluates every generated '
           'broadcasting dunder on a fresh operand and on each part of the '
           'element itself; R5L copy() of discretized elements.',
    'C03': ' Evaluated tier R11: about 410 operator / functional instances '
           'on model spaces are called out of place (input untouched) and in '
           'place on an output holding arbitrary symbols (same object, the '
           'out-of-place values, input untouched), with views modelled; '
           'the operators returned as adjoints (closure classes such as '
           'the resizing adjoint) are called the same way; affine finite-'
           'difference operators and resizing operators are among the '
           'instances, affine shifts op + v and sums of operators returning '
           'views of their input.  R12: op(x, out=x) holds the values of '
           'op(x) (evaluated aliased calls).',
    'C05': ' The evaluated tier R8 covers default, product-space, tensor '
           '(matrix, sampling, flattening, pointwise inner) and finite-'
           'difference operators on weighted / complex / discretized model '
           'spaces, plus adjoint.adjoint; weighted-space defects are known '
           'findings.  Short axes (2, 3 points) for every finite-difference '
           'method / padding, power spaces of length one and two, resizing '
           'operators for every pad mode; R9w wavelet adjoints; complex '
           'scalar multiplicands; ranges of lower precision.',
    'C04': ' Functional arithmetic (scalings, sums, translations) is '
           'normalised like operator arithmetic.  Leaf operators with domain '
           '= range: no aliased leaf call on a fresh out (R3), out aliased '
           '(R3a), two element objects over one buffer (R3s); R3e: nonlinear '
           'built-ins evaluated with out aliased to the input; nested '
           'vector shifts (op + v) + w keep both vectors.',
    'C02': ' BLAS dot / dotc modelled, large-array regime with an admitting '
           'guard; R4c cell sides / cell volume through the real properties '
           'with tolerance tests explored both ways.',
    'C06': ' Evaluated tier R8: derivative(x)(d) of nonlinear built-ins, '
           'arithmetic on them and block operators equals the symbolic '
           'differential of the evaluated A(x) on weighted model spaces; a '
           'derivative stays the derivative at its point when the operator '
           'is evaluated / differentiated elsewhere in between; affine '
           'finite-difference operators; compositions with a user '
           'temporary.',
    'C07': ' Evaluated tier R6: concrete proximals at designated points '
           'satisfy the first-order optimality condition of the proximal '
           'problem (sub-gradient intervals at kinks, normal cones for '
           'projections).  R6d: about 135 instances (norms, unit balls, '
           'simplex, group norms, Huber on vector fields, conjugates, '
           'derived functionals, factories with lam / g, separable sums, '
           'nuclear norm with a 2x2 SVD model) must have finite f(p) and no '
           'descent of f(z) + ||z-x||^2/(2 sigma) along 34 rays from p, the '
           'one-sided slopes computed by jet expansion of the functional\'s '
           'own value (a necessary condition).  R7: the in-place call of '
           'every library proximal equals the out-of-place call; left-'
           'scaled separable sums with one step size per part.',
    'C08': ' Evaluated tier R5: Fenchel-Young equality at the gradient, '
           'biconjugate values and the Moreau decomposition of concrete '
           'functionals at designated points on weighted model spaces '
           '(76 instances incl. norms / dual unit balls, group and nuclear '
           'norms), plus the Fenchel-Young inequality at y = g/2, 2g; the '
           'Moreau clause also with both proximals applied in place; '
           'translated functionals whose conjugate is a derived functional; '
           'Kullback-Leibler with a prior that has zeros; R6 Moreau '
           'decomposition of the documented factory pairs called directly '
           'with lam and g.  The inequality is also tested at the gradient '
           'with one entry halved (isolates one coordinate); scaled '
           'constant functionals; points outside the effective domain.',
    'C10': ' Evaluated tier R3: proximals and default operators called '
           'with out aliased to the input on model spaces, after a first '
           'aliased call of the same operator instance at another point.',
    'C09': ' Evaluated tier R6: gradient(x) and derivative(x)(d) of concrete '
           'and derived functionals equal the symbolic differential of the '
           'evaluated value divided by the weights (Huber at generic points '
           'of a region decided at a designated numeric point).  R3e: every '
           'declared finite Lipschitz bound is tested against difference '
           'quotients of the evaluated gradient at numeric point pairs on '
           'three scales (refutation only); tolerance tests against machine '
           'constants are explored both ways.',
    'C11': ' Resumption also with in-place projections; inputs other than '
           'the iterate are unchanged after a run (R2i); R5: the premise of '
           'R1 that prox(v, out=v) equals prox(v) is discharged on the '
           'library\'s proximals (evaluated aliased calls).',
    'C12': ' R6: a point satisfying the optimality conditions (rewrite '
           'axioms on the proximal symbols) is returned unchanged by PDHG, '
           'Douglas-Rachford, forward-backward and proximal gradient '
           'methods after 1-3 iterations (relaxation lam != 1 included); R7: '
           'the random-order Kaczmarz variant pairs every operator with its '
           'own relaxation parameter and right-hand side.  R8: CG / CGN / '
           'Landweber on data scaled by eps -> 0+ and eps -> inf.  R9: after '
           'n iterations the caller\'s x holds the iterate of the n-th '
           'iteration.  R4b: the power method\'s stagnation test compares '
           'consecutive values of the returned estimate.  R10: no aliased '
           'evaluation of a user operator (solvers run with operators X -> '
           'X).  R2c: default Landweber relaxation from a generically '
           'started norm estimate.  R2n: the norm helper of the default '
           'Douglas-Rachford steps returns |c| ||A|| for scaled operators.  '
           'Machine constants (np.finfo) are absolute numbers in R8.',
    'C13': ' Evaluated tier: the four operator classes are instantiated on '
           'a 4 x 3 model space with symbolic cell sides; values = reference '
           'stencil / cell side (R6), derivative = exact difference of the '
           'affine map (R7), adjoint of the linear part incl. affine and '
           'mixed-precision variants (R8); np.allclose on non-identical '
           'operands explored with both outcomes.',
    'C14': ' uniform_partition_fromgrid is evaluated for all 64 forms of the '
           'limit arguments on a 2-d grid; the index normaliser is interpreted '
           'on every slice form (R3b); nonuniform_partition on products of '
           'axes of different lengths; uniform_partition_fromintv forwards '
           'interval / shape / per-side flags.  R1u: the uniformity flag of '
           'a partition is invariant under translation of the grid; R1o: '
           'interval products own their limit arrays.',
    'C15': ' The dtype rule also runs through the public factories and '
           'tracks fractional information through casts; complex constant '
           'callables; element() owns its data (R4c); R1L: the interpolators '
           'on value arrays in Fortran memory order; R6a deformation '
           'operators under out aliased to the input (kernel alias '
           'hazards).  R7i: the interp property of the interpolating '
           'operators over all per-axis tuples; R4 a second out-of-place '
           'evaluation of a sampling wrapper shares no memory with the '
           'first result; R1s grids with a single-node axis.',
    'C16': ' Mixed grow / shrink shapes in the n-d rule; _offset_from_spaces '
           'evaluated on 81 two-dimensional pairs with signed offsets; axes '
           'that keep their size with non-zero offset.  R2s: zero, constant '
           'and one-hot inputs give the value of the extracted affine map '
           'and leave the input array unchanged.  R4c: explicit ranges with '
           'other cell sides are refused in every axis.',
    'C17': ' Two-output ufuncs with different output dtypes and nested '
           'power-space broadcasting of the legacy wrappers are included; '
           'the dtype keyword of the legacy reductions; reductions of narrow '
           'integers; memory sharing through DiscretizedSpace.element; R6 '
           'power-space elements through the legacy array protocol.',
    'C18': ' The per-axis pre-processing factors are evaluated for every '
           'shift pattern (R2b); the planner rule follows destroyed arrays '
           '(R5); wavelet adjoint scaling for every axes subset (R9); '
           'complex conjugation over the kernel symbols and unshifted axes '
           'in R3; R3p: a plan made by init_fftw_plan uses the direction / '
           'halfcomplex / axes of the call; R4d processing steps pass the '
           'operator\'s own sign / shifts / axes; R1c reciprocal_space keeps '
           'the axis order.',
    'C19': ' The default surface normal is evaluated on generic tangents '
           '(R8); off-centre volumes among the coverage witnesses; R9 '
           'rotation_matrix_from_to at rational vector pairs; R8b flat '
           'detector normals; R4m no in-place accumulation into aliased '
           'constructor arguments; R9b: the alignment shortcut of '
           'transform_system compares quantities of first order in the '
           'tilt.',
    'C20': ' TensorSpace._astype is evaluated over weighting kinds, '
           'exponents and target dtypes (R7d); slicing of weighted spaces '
           '(R7e); R7f product-space element indexing against NumPy '
           'indexing of the stacked array, component weights kept; R1c no '
           'id() of a value-compared component in a hash key; R5 '
           'containment tests are symmetric in the compared types.',
}

NOT_YET = 'check not implemented yet in this commit (DESIGN.md section 6 build order)'
NA = {}

def main():
    props = [json.loads(l)['id'] for l in open(os.path.join(HERE, 'properties.jsonl'))]
    checks = []
    for pid in props:
        if pid not in CLAIMS:
            continue
        c = CLAIMS[pid]
        checks.append({
            'property_id': pid,
            'quick_cmd': './check %s' % pid,
            'thorough_cmd': './check %s --tier thorough' % pid,
            'evidence_file': 'evidence/%s.json' % pid,
            'replay_cmd_template': './check %s --replay {path}' % pid,
            'engine': 'sa',
            'level_claimed': {'category': c['cat'],
                              'text': c['text'] + EXTRA.get(pid, ''),
                              'design_ref': c['ref']},
            'level_note': c['note'],
            'technique': c['tech'],
        })
    na = [{'property_id': p, 'reason': NA.get(p, NOT_YET)}
          for p in props if p not in CLAIMS]
    man = {
        'version': 1,
        'setup_cmd': 'true',
        'hooks': {
            'guard': 'ODL_VERIF',
            'enable': 'none needed: the checks parse /repo and never run it;'
                      ' no hook commit exists',
            'baseline_off_cmd': 'cd /repo && /venv/bin/python -m pytest -ra '
                                '-q -p no:cacheprovider --timeout=900 '
                                '--continue-on-collection-errors',
            'source_commits': [],
            'add_only': True,
        },
        'engines': [{
            'name': 'sa', 'path': 'sa/',
            'serves_properties': sorted(CLAIMS),
            'kind_free_text': 'repository-specific static analysis on the '
                              'Python ast: abstract interpretation (affine '
                              'slice algebra, vector-space value numbering, '
                              'rational-function normal forms), typestate / '
                              'effect dataflow, class-hierarchy queries',
        }],
        'checks': checks,
        'not_applicable': na,
        'notes': 'Static analysis only; see DESIGN.md.  Exit 0 = all '
                 'obligations discharged (known findings printed as '
                 'KNOWN-FINDING), 1 = VIOLATION, 2 = ANALYSIS-ERROR '
                 '(construct outside the modelled subset / vanished anchor).',
    }
    with open(os.path.join(HERE, 'MANIFEST.json'), 'w') as f:
        json.dump(man, f, indent=1)
    print('claimed', sorted(CLAIMS), 'n/a', len(na))

if __name__ == '__main__':
    main()
