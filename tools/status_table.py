#!/usr/bin/env python3
"""Print the status table of DESIGN.md section 0 from fresh quick runs:
obligations, known findings, time, self-test mutants per property."""
import json, os, re, subprocess, sys, time
here = os.path.dirname(os.path.dirname(os.path.abspath(__file__)))
sys.path.insert(0, here)
from sa import mutants
nm = {}
for m in mutants.MUTANTS:
    nm[m['pid']] = nm.get(m['pid'], 0) + 1
man = json.load(open(os.path.join(here, 'MANIFEST.json')))
levels = {c['property_id']: c['level_claimed']['category']
          for c in man['checks']}
rows = []
for i in range(1, 21):
    pid = 'C%02d' % i
    t0 = time.time()
    r = subprocess.run([os.path.join(here, 'check'), pid], capture_output=True,
                       text=True)
    dt = time.time() - t0
    last = [l for l in r.stdout.splitlines() if l.startswith(pid + ':')][-1]
    m = re.search(r'(\d+) obligations, (\d+) hold, (\d+) violations \((\d+) new, (\d+) known\)', last)
    ob, hold, vio, new, known = map(int, m.groups())
    rows.append('| %s | %s | %d%s | %.1f s | %d | exit %d |' % (
        pid, levels.get(pid, '?'), ob,
        ' (%d known instances)' % known if known else '', dt,
        nm.get(pid, 0), r.returncode))
print('| id | level | obligations (quick) | time | self-test mutants | clean tree |')
print('|----|-------|---------------------|------|-------------------|------------|')
print('\n'.join(rows))
print('\n%d mutants in total' % sum(nm.values()))
