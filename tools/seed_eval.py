#!/usr/bin/env python3
"""Evaluate a seeded change against the checks.

usage: seed_eval.py <worktree with uncommitted change> <ID> <slug>

Copies patch / demonstration / notes to /verif/seeded/<ID>-<slug>/, confirms
in a fresh scratch worktree of /repo that (a) the patch applies, (b) the test
suite still passes, (c) the demonstration exits 1 with the patch and 0
without, then runs every check against the patched scratch tree and records
which ones report a violation (meta.json).  The scratch tree is removed.
"""
import json
import os
import shutil
import subprocess
import sys
import tempfile

VERIF = os.path.dirname(os.path.dirname(os.path.abspath(__file__)))
PY = '/venv/bin/python'
ALL = ['C%02d' % i for i in range(1, 21)]


def sh(cmd, cwd=None, env=None, timeout=3000):
    r = subprocess.run(cmd, cwd=cwd, env=env, stdout=subprocess.PIPE,
                       stderr=subprocess.STDOUT, universal_newlines=True,
                       timeout=timeout)
    return r.returncode, r.stdout


def main():
    argv = list(sys.argv[1:])
    variant = None
    if '--variant' in argv:
        i = argv.index('--variant')
        variant = argv[i + 1]
        del argv[i:i + 2]
    wt, pid, slug = argv[:3]
    only = argv[3:] or ALL
    dest = os.path.join(VERIF, 'seeded', '%s-%s' % (pid, slug))
    os.makedirs(dest, exist_ok=True)
    if variant:
        # round 2: <wt>/<variant>.diff, DEMO_<variant>.py
        with open(os.path.join(wt, variant + '.diff')) as f:
            diff = f.read()
        demo_name = 'DEMO_%s.py' % variant
    else:
        rc, diff = sh(['git', 'diff', 'HEAD', '--', 'odl'], cwd=wt)
        demo_name = 'DEMO.py'
    if not diff.strip():
        print('no change in', wt)
        return 2
    with open(os.path.join(dest, 'patch.diff'), 'w') as f:
        f.write(diff)
    for name, tgt in ((demo_name, 'DEMO.py'), ('NOTES.md', 'NOTES.md')):
        src = os.path.join(wt, name)
        if os.path.exists(src):
            shutil.copy(src, os.path.join(dest, tgt))
    scratch = tempfile.mkdtemp(prefix='odl-seed-eval-')
    os.rmdir(scratch)
    meta = {'property': pid, 'slug': slug}
    try:
        rc, out = sh(['git', '-C', '/repo', 'worktree', 'add', '-q',
                      '--detach', scratch, 'HEAD'])
        if rc:
            print(out)
            return 2
        demo = os.path.join(dest, 'DEMO.py')
        if os.path.exists(demo):
            rc0, o0 = sh([PY, demo], cwd=scratch,
                         env=dict(os.environ, PYTHONPATH=scratch))
            meta['demo_exit_clean'] = rc0
        rc, out = sh(['git', 'apply', os.path.join(dest, 'patch.diff')],
                     cwd=scratch)
        meta['applies'] = rc == 0
        if rc:
            print('patch does not apply:', out)
        rc, out = sh([PY, '-m', 'pytest', '-q', '-p', 'no:cacheprovider',
                      '--timeout=900', '--continue-on-collection-errors'],
                     cwd=scratch)
        meta['pytest'] = out.strip().splitlines()[-1] if out.strip() else ''
        meta['pytest_exit'] = rc
        if os.path.exists(demo):
            rc1, o1 = sh([PY, demo], cwd=scratch,
                         env=dict(os.environ, PYTHONPATH=scratch))
            meta['demo_exit_patched'] = rc1
            meta['demo_tail'] = o1.strip().splitlines()[-6:]
        env = dict(os.environ, VERIF_NO_EVIDENCE='1',
                   PYTHONDONTWRITEBYTECODE='1', VERIF_TIMEOUT='900')
        res = {}
        for c in only:
            rc, out = sh([os.path.join(VERIF, 'check'), c, '--repo',
                          scratch], cwd=VERIF, env=env)
            viol = [l for l in out.splitlines()
                    if l.startswith('  rule=')]
            res[c] = {'exit': rc, 'violations': viol[:6]}
            if rc not in (0, 1):
                res[c]['error'] = [l for l in out.splitlines()
                                   if 'ANALYSIS-ERROR' in l][:3]
                print(c, 'ANALYSIS ERROR', res[c]['error'])
        meta['checks'] = res
        meta['detected_by'] = [c for c, r in res.items() if r['exit'] == 1]
        meta['analysis_errors'] = [c for c, r in res.items()
                                   if r['exit'] not in (0, 1)]
    finally:
        sh(['git', '-C', '/repo', 'worktree', 'remove', '--force', scratch])
        sh(['git', '-C', '/repo', 'worktree', 'prune'])
        shutil.rmtree(scratch, ignore_errors=True)
    with open(os.path.join(dest, 'meta.json'), 'w') as f:
        json.dump(meta, f, indent=1)
    print(json.dumps({k: v for k, v in meta.items() if k != 'checks'},
                     indent=1))
    for c in meta['detected_by']:
        for v in meta['checks'][c]['violations'][:2]:
            print('   ', c, v.strip()[:200])
    return 0


if __name__ == '__main__':
    sys.exit(main())
