#!/usr/bin/env python3
"""Re-run the checks against every kept seeded change (regression harness).

usage: seed_recheck.py [-j N] [--all-checks] [--update] [PATTERN ...]

For every /verif/seeded/<ID>-<slug>/patch.diff (optionally filtered by
substring patterns) a scratch copy of /repo's tracked `odl/` tree is made
under $TMPDIR, the patch is applied, the property's own check (or all 20 with
--all-checks) is run against the copy, the copy is removed.  Prints one line
per seed: detected / MISSED / ANALYSIS-ERROR / does-not-apply.  With --update
the `checks`, `detected_by`, `analysis_errors` entries of meta.json are
rewritten.  Exit 1 if a seed that applies is not detected by its own check.
"""
import json
import os
import shutil
import subprocess
import sys
import tempfile
from concurrent.futures import ThreadPoolExecutor

VERIF = os.path.dirname(os.path.dirname(os.path.abspath(__file__)))
ALL = ['C%02d' % i for i in range(1, 21)]


def sh(cmd, cwd=None, env=None, timeout=3000):
    r = subprocess.run(cmd, cwd=cwd, env=env, stdout=subprocess.PIPE,
                       stderr=subprocess.STDOUT, universal_newlines=True,
                       timeout=timeout)
    return r.returncode, r.stdout


def one(name, all_checks, update):
    d = os.path.join(VERIF, 'seeded', name)
    patch = os.path.join(d, 'patch.diff')
    if not os.path.exists(patch):
        return name, 'no-patch', {}
    pid = name.split('-')[0]
    scratch = tempfile.mkdtemp(prefix='odl-seed-re-')
    try:
        rc, out = sh('git -C /repo archive HEAD odl | tar -x -C %s' % scratch
                     if False else
                     ['sh', '-c',
                      'git -C /repo archive HEAD | tar -x -C "%s"' % scratch])
        if rc:
            return name, 'archive-failed', {}
        rc, out = sh(['git', 'apply', '--unsafe-paths', '--directory',
                      scratch, patch], cwd='/')
        if rc:
            rc, out = sh(['patch', '-p1', '-s', '-i', patch], cwd=scratch)
        if rc:
            return name, 'does-not-apply', {}
        env = dict(os.environ, VERIF_NO_EVIDENCE='1',
                   PYTHONDONTWRITEBYTECODE='1', VERIF_TIMEOUT='900')
        res = {}
        for c in (ALL if all_checks else [pid]):
            rc, out = sh([os.path.join(VERIF, 'check'), c, '--repo', scratch],
                         cwd=VERIF, env=env)
            viol = [l for l in out.splitlines() if l.startswith('  rule=')]
            res[c] = {'exit': rc, 'violations': viol[:6]}
            if rc not in (0, 1):
                res[c]['error'] = [l for l in out.splitlines()
                                   if 'ANALYSIS-ERROR' in l][:3]
        own = res[pid]['exit']
        status = ('detected' if own == 1 else
                  'MISSED' if own == 0 else 'ANALYSIS-ERROR')
        if update:
            mp = os.path.join(d, 'meta.json')
            meta = json.load(open(mp)) if os.path.exists(mp) else {}
            checks = meta.get('checks')
            if not isinstance(checks, dict):
                checks = {}
            checks.update(res)
            meta['checks'] = checks
            meta['detected_by'] = [c for c, r in checks.items()
                                   if r.get('exit') == 1]
            meta['analysis_errors'] = [c for c, r in checks.items()
                                       if r.get('exit') not in (0, 1)]
            with open(mp, 'w') as f:
                json.dump(meta, f, indent=1)
        return name, status, res
    finally:
        shutil.rmtree(scratch, ignore_errors=True)


def main():
    argv = sys.argv[1:]
    jobs = 8
    if '-j' in argv:
        i = argv.index('-j')
        jobs = int(argv[i + 1])
        del argv[i:i + 2]
    all_checks = '--all-checks' in argv
    update = '--update' in argv
    pats = [a for a in argv if not a.startswith('--')]
    names = sorted(n for n in os.listdir(os.path.join(VERIF, 'seeded'))
                   if not pats or any(p in n for p in pats))
    bad = 0
    dp = os.path.join(VERIF, 'seeded', 'DECLINED.json')
    declined = json.load(open(dp)) if os.path.exists(dp) else {}
    names = [n for n in names if os.path.isdir(os.path.join(
        VERIF, 'seeded', n))]
    with ThreadPoolExecutor(jobs) as ex:
        for name, status, res in ex.map(
                lambda n: one(n, all_checks, update), names):
            pid = name.split('-')[0]
            extra = ''
            if status == 'detected':
                extra = '; '.join(v.strip()[:110] for v in
                                  res[pid]['violations'][:1])
            elif status == 'ANALYSIS-ERROR':
                extra = '; '.join(res[pid].get('error', []))[:200]
            others = [c for c, r in res.items()
                      if c != pid and r['exit'] == 1]
            if others:
                extra += '  [also: %s]' % ','.join(others)
            print('%-22s %-15s %s' % (name, status, extra), flush=True)
            if status in ('MISSED', 'ANALYSIS-ERROR'):
                if name in declined:
                    print('%-22s (declined: outside the technique, see '
                          'seeded/DECLINED.json)' % '')
                else:
                    bad += 1
    print('not detected by own check:', bad)
    return 1 if bad else 0


if __name__ == '__main__':
    sys.exit(main())
